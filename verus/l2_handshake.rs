// L2 — composition lemma: the SyncBlocker forwarding handshake (unbounded, all interleavings, sequential consistency).
//
// The per-function obligations checked on the real code establish that
//   * a waiter whose wait is aborted (time-out / cancel) executes exactly the steps
//       A1: u1 := unparked;          if u1 { forward; done }
//       A2: release := true;
//       A3: u2 := unparked;          if !u2 { done }
//       A4: r := swap(release,false); if r { forward }; done
//     (Mutex C05.4a, RwLock C12.3a, Semphore C10.4a, SyncFlag C10.5c, Condvar C11.2a: the Kani harnesses run the REAL abort
//      paths against these very step functions of `SyncBlocker`, C02.7), and
//   * a waker (unpark_one / wakeup_one / notify_one) executes
//       W1: unparked := true;        W2: r := swap(release,false); if r { forward }
//     (C05.3a, C10.3a, C11.3a, C12 unlock).
// This lemma proves, for EVERY interleaving of one waiter with zero or one waker, that when both have finished the
// wake-up (lock hand-off, permit, notification) has been forwarded exactly once if a waker existed and never otherwise.
// It is an abstract lemma (a model of the step contracts), NOT a proof about code; it is listed as such in the evidence.
use vstd::prelude::*;
verus! {

pub struct S {
    pub unparked: bool,
    pub release: bool,
    pub a: int,   // waiter pc: 0 before A1, 1 before A2, 2 before A3, 3 before A4, 90 done at A1, 91 done at A3, 92 done at A4
    pub w: int,   // waker pc: 0 before W1, 1 before W2, 9 done; -1: there is no waker
    pub fa: int,  // forwards by the waiter
    pub fw: int,  // forwards by the waker
}

pub open spec fn init(s: S, waker_exists: bool) -> bool {
    !s.unparked && !s.release && s.a == 0 && s.fa == 0 && s.fw == 0 && s.w == (if waker_exists { 0int } else { -1int })
}

pub open spec fn step(s: S, t: S) -> bool {
    // waiter steps
    ||| (s.a == 0 && s.unparked && t == S { a: 90, fa: s.fa + 1, ..s })
    ||| (s.a == 0 && !s.unparked && t == S { a: 1, ..s })
    ||| (s.a == 1 && t == S { a: 2, release: true, ..s })
    ||| (s.a == 2 && !s.unparked && t == S { a: 91, ..s })
    ||| (s.a == 2 && s.unparked && t == S { a: 3, ..s })
    ||| (s.a == 3 && s.release && t == S { a: 92, release: false, fa: s.fa + 1, ..s })
    ||| (s.a == 3 && !s.release && t == S { a: 92, ..s })
    // waker steps
    ||| (s.w == 0 && t == S { w: 1, unparked: true, ..s })
    ||| (s.w == 1 && s.release && t == S { w: 9, release: false, fw: s.fw + 1, ..s })
    ||| (s.w == 1 && !s.release && t == S { w: 9, ..s })
}

pub open spec fn inv(s: S) -> bool {
    &&& (s.unparked <==> (s.w == 1 || s.w == 9))
    &&& (s.w == -1 || s.w == 0 || s.w == 1 || s.w == 9)
    &&& (s.w != 9 ==> s.fw == 0)
    &&& (s.a == 0 ==> !s.release && s.fa == 0 && s.fw == 0)
    &&& (s.a == 1 ==> !s.release && s.fa == 0 && s.fw == 0)
    &&& (s.a == 2 ==> s.fa == 0 && ((s.release && s.fw == 0) || (!s.release && s.fw == 1 && s.w == 9)))
    &&& (s.a == 3 ==> s.fa == 0 && (s.w == 1 || s.w == 9) && ((s.release && s.fw == 0) || (!s.release && s.fw == 1 && s.w == 9)))
    &&& (s.a == 90 ==> !s.release && s.fa == 1 && s.fw == 0 && (s.w == 1 || s.w == 9))
    &&& (s.a == 91 ==> s.fa == 0 && ((s.w != 9 && s.release && s.fw == 0) || (s.w == 9 && !s.release && s.fw == 1)))
    &&& (s.a == 92 ==> !s.release && s.fa + s.fw == 1 && (s.w == 1 || s.w == 9))
    &&& (s.a == 0 || s.a == 1 || s.a == 2 || s.a == 3 || s.a == 90 || s.a == 91 || s.a == 92)
}

pub open spec fn finished(s: S) -> bool {
    s.a >= 90 && (s.w == 9 || s.w == -1)
}

//@ obligation: L2.init
//@ property: C05 C09 C10 C11 C12
//@ kind: L
//@ complete: yes
//@ functions: (abstract lemma over the SyncBlocker step contracts)
//@ statement: (Verus) the invariant holds initially, with and without a waker
proof fn lemma_init(s: S, waker_exists: bool)
    requires init(s, waker_exists)
    ensures inv(s)
{
}

//@ obligation: L2.step
//@ property: C05 C09 C10 C11 C12
//@ kind: L
//@ complete: yes
//@ functions: (abstract lemma over the SyncBlocker step contracts)
//@ statement: (Verus) the invariant is preserved by every atomic step of the waiter's abort sequence and of the waker, in any order
proof fn lemma_step(s: S, t: S)
    requires inv(s), step(s, t)
    ensures inv(t)
{
}

//@ obligation: L2.post
//@ property: C05 C09 C10 C11 C12
//@ kind: L
//@ complete: yes
//@ functions: (abstract lemma over the SyncBlocker step contracts)
//@ statement: (Verus) when both parties have finished, the wake-up was forwarded exactly once if a waker existed and never if there was none
proof fn lemma_post(s: S)
    requires inv(s), finished(s)
    ensures s.w == 9 ==> s.fa + s.fw == 1,
            s.w == -1 ==> s.fa + s.fw == 0,
{
}

//@ obligation: L2.canary
//@ property: C05
//@ kind: L
//@ canary: yes
//@ statement: canary — claims the waiter alone always forwards; must FAIL
proof fn canary_waiter_always_forwards(s: S)
    requires inv(s), finished(s), s.w == 9
{
    assert(s.fa == 1);
}

} // verus!
fn main() {}
