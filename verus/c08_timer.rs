// C08.2 — Verus kernel for the deadline computation of the timer list.
// `TimeOutList::add_timer` itself (RwLock + HashMap + BinaryHeap) is out of reach of both verifiers (HashMap exhausts
// 14 GB in CBMC; Verus cannot ingest it). Its first statements — the ones that turn the requested duration into the
// absolute expiry time stored in the entry — are re-extracted verbatim from /repo's working tree on every run
// (//@@ SNIPPET) into the wrapper below; the rest of the body (list lookup / push / heap install) is dropped.
// Assumed (trusted) contracts on std: Duration::as_nanos, Duration::as_millis; `now()` is an opaque clock.
use vstd::prelude::*;
use std::time::Duration;
verus! {

pub uninterp spec fn dur_secs(d: Duration) -> nat;
pub uninterp spec fn dur_nanos(d: Duration) -> nat;
pub open spec fn dur_ns(d: Duration) -> nat { dur_secs(d) * 1_000_000_000 + dur_nanos(d) }
pub uninterp spec fn clock() -> u64;

pub assume_specification[Duration::as_nanos](d: &Duration) -> (r: u128)
    ensures r == dur_ns(*d), dur_secs(*d) <= u64::MAX, dur_nanos(*d) < 1_000_000_000;

pub assume_specification[Duration::as_millis](d: &Duration) -> (r: u128)
    ensures r == dur_secs(*d) * 1000 + dur_nanos(*d) / 1_000_000,
            dur_secs(*d) <= u64::MAX, dur_nanos(*d) < 1_000_000_000;

pub assume_specification[Duration::as_micros](d: &Duration) -> (r: u128)
    ensures r == dur_secs(*d) * 1_000_000 + dur_nanos(*d) / 1000,
            dur_secs(*d) <= u64::MAX, dur_nanos(*d) < 1_000_000_000;

#[verifier::external_body]
fn now() -> (r: u64)
    ensures r == clock(), r < 0x4000_0000_0000_0000,
{
    unimplemented!()
}

//@ obligation: C08.2v
//@ property: C08 C18
//@ kind: K1
//@ complete: yes
//@ functions: TimeOutList::add_timer (deadline computation)
//@ statement: (Verus, unbounded integers) for every duration below 2^32 seconds and every clock value below 2^62 ns, the expiry time that add_timer
//@ statement: stores in the timer entry is exactly now + d in nanoseconds — the requested duration is neither rounded down (early fire) nor up
fn add_timer_deadline(dur: Duration) -> (time: u64)
    requires dur_secs(dur) < 0x1_0000_0000,
    ensures time == clock() + dur_ns(dur),
{
    //@@ SNIPPET file=src/timeout_list.rs fn=add_timer until=let timeout = TimeoutData
    time
}

} // verus!
fn main() {}
