// L1 — composition lemma: register-then-recheck loses no wake-up (unbounded, all interleavings, sequential consistency).
//
// The per-function obligations on the real code establish that
//   * every waiter (Join::wait C01.1a, Park::subscribe C02.8a-d, mpsc recv C06.2a, spsc subscribe C06.3b/C07.2a-c, cqueue poll
//     C16.1.x, SocketRead/SocketWrite::subscribe C17.2a-d/C17.5a-d) executes
//       P1: publish itself in the shared slot;   P2: c := read(condition);   if c { take itself back / self-wake } else { block }
//     — in that order (the ordering obligations C02.8d, C06.3b, C17.2d, C17.5d, and the "registered at park" assertions), and
//   * every waker (Join::trigger C01.2a, Park::unpark C02.4a, send C06.4a, drop_chan C07.1a, EventSender C16.3a, selector C17.3a)
//     executes   K1: set the condition;   K2: h := take(slot);   if h { wake h }   — in that order.
// This lemma proves for every interleaving of one waiter and one waker: once both have finished their steps, a waiter that
// blocked has been woken (or has woken itself) — it is never left blocked with the condition set and nobody left to wake it —
// and it is woken at most once through the slot.
// It is an abstract lemma (a model of the step contracts), NOT a proof about code; it is listed as such in the evidence.
use vstd::prelude::*;
verus! {

pub struct S {
    pub cond: bool,      // the wake condition (done flag / token / queue non-empty / readiness flag)
    pub slot: bool,      // the waiter is registered in the shared slot
    pub p: int,          // waiter pc: 0 before P1, 1 before P2, 80 blocked, 81 self-served (did not block)
    pub k: int,          // waker pc: 0 before K1, 1 before K2, 9 done
    pub wakes: int,      // wake-ups delivered through the slot
}

pub open spec fn init(s: S) -> bool {
    !s.cond && !s.slot && s.p == 0 && s.k == 0 && s.wakes == 0
}

pub open spec fn step(s: S, t: S) -> bool {
    ||| (s.p == 0 && t == S { p: 1, slot: true, ..s })
    // re-check reads "set": the waiter serves itself; it takes itself back if still registered
    ||| (s.p == 1 && s.cond && t == S { p: 81, slot: false, ..s })
    ||| (s.p == 1 && !s.cond && t == S { p: 80, ..s })
    ||| (s.k == 0 && t == S { k: 1, cond: true, ..s })
    ||| (s.k == 1 && s.slot && t == S { k: 9, slot: false, wakes: s.wakes + 1, ..s })
    ||| (s.k == 1 && !s.slot && t == S { k: 9, ..s })
}

pub open spec fn inv(s: S) -> bool {
    &&& (s.cond <==> (s.k == 1 || s.k == 9))
    &&& (s.k == 0 || s.k == 1 || s.k == 9)
    &&& (s.p == 0 || s.p == 1 || s.p == 80 || s.p == 81)
    &&& (s.k != 9 ==> s.wakes == 0)
    &&& s.wakes <= 1
    &&& (s.p == 0 ==> !s.slot && s.wakes == 0)
    &&& (s.p == 1 ==> (s.slot <==> s.wakes == 0))
    &&& (s.p == 80 ==> (s.slot <==> s.wakes == 0) && (s.k == 9 ==> s.wakes == 1))
    &&& (s.p == 81 ==> !s.slot)
}

//@ obligation: L1.init
//@ property: C01 C02 C06 C07 C16 C17
//@ kind: L
//@ complete: yes
//@ functions: (abstract lemma over the register-then-recheck step contracts)
//@ statement: (Verus) the invariant holds initially
proof fn lemma_init(s: S)
    requires init(s)
    ensures inv(s)
{
}

//@ obligation: L1.step
//@ property: C01 C02 C06 C07 C16 C17
//@ kind: L
//@ complete: yes
//@ functions: (abstract lemma over the register-then-recheck step contracts)
//@ statement: (Verus) the invariant is preserved by every atomic step of waiter and waker, in any order
proof fn lemma_step(s: S, t: S)
    requires inv(s), step(s, t)
    ensures inv(t)
{
}

//@ obligation: L1.post
//@ property: C01 C02 C06 C07 C16 C17
//@ kind: L
//@ complete: yes
//@ functions: (abstract lemma over the register-then-recheck step contracts)
//@ statement: (Verus) once the waker has finished, a waiter that blocked has been woken exactly once through the slot; a waiter that served itself
//@ statement: is woken at most once more (a spurious token, never a lost one)
proof fn lemma_post(s: S)
    requires inv(s), s.k == 9
    ensures s.p == 80 ==> s.wakes == 1,
            s.wakes <= 1,
{
}

//@ obligation: L1.canary
//@ property: C02
//@ kind: L
//@ canary: yes
//@ statement: canary — the same claim for a waiter that re-checks BEFORE it registers (steps swapped) does not follow; must FAIL
proof fn canary_recheck_before_register(s: S)
    requires
        // state reachable when P2 (reads false) runs before P1: blocked, registered only after the waker's take
        s.cond && s.slot && s.p == 80 && s.k == 9 && s.wakes == 0,
{
    assert(inv(s));
}

} // verus!
fn main() {}
