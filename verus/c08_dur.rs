// C08.1 — Verus kernel for the duration -> millisecond conversion of AtomicDuration.
// `to_millis` is re-extracted verbatim from /repo's working tree on every run (//@@ EXTRACT); only the
// signature line is replaced to name the return value and the ensures clause is inserted.
// Assumed (trusted) contracts on std: Duration::as_millis, Duration::subsec_nanos (stated below).
use vstd::prelude::*;
use std::time::Duration;
verus! {

pub uninterp spec fn dur_secs(d: Duration) -> nat;
pub uninterp spec fn dur_nanos(d: Duration) -> nat;

/// the duration in nanoseconds, as a mathematical integer
pub open spec fn dur_ns(d: Duration) -> nat { dur_secs(d) * 1_000_000_000 + dur_nanos(d) }

pub assume_specification[Duration::as_millis](d: &Duration) -> (r: u128)
    ensures r == dur_secs(*d) * 1000 + dur_nanos(*d) / 1_000_000,
            dur_secs(*d) <= u64::MAX, dur_nanos(*d) < 1_000_000_000;

pub assume_specification[Duration::subsec_nanos](d: &Duration) -> (r: u32)
    ensures r == dur_nanos(*d), dur_nanos(*d) < 1_000_000_000;

/// what the property demands of the stored tick count `r` for a requested duration of `ns` nanoseconds:
/// never "none" (0), never shorter than requested, less than one tick (1 ms) longer — except that a zero
/// duration is stored as one tick because 0 encodes "no time-out".
pub open spec fn ticks_ok(ns: nat, r: nat) -> bool {
    r >= 1 && r * 1_000_000 >= ns && ((r - 1) * 1_000_000 < ns || (ns == 0 && r == 1))
}

//@ obligation: C08.1v
//@ property: C08 C18
//@ kind: K1
//@ complete: yes
//@ functions: sync::atomic_dur::to_millis
//@ statement: (Verus, unbounded integers) to_millis(None) = 0; to_millis(Some(d)) = r with r >= 1, r ms >= d and
//@ statement: (r-1) ms < d, for every d whose tick count fits usize — never lost, never early, within one tick
//@@ EXTRACT file=src/sync/atomic_dur.rs fn=to_millis
//@@ SIG fn to_millis(dur: Option<Duration>) -> (r: usize)
//@@ SPEC     ensures
//@@ SPEC         dur is None <==> r == 0,
//@@ SPEC         dur is Some && dur_secs(dur.unwrap()) * 1000 + 1000 <= usize::MAX ==> ticks_ok(dur_ns(dur.unwrap()), r as nat),

//@ obligation: C08.1w
//@ property: C08 C18
//@ kind: L
//@ complete: yes
//@ functions: AtomicDuration::store, AtomicDuration::take
//@ statement: (Verus lemma) if the cell holds r = to_millis(Some(d)) ticks and take() returns from_millis(r), i.e. exactly
//@ statement: r * 1ms, then the returned duration d' satisfies d <= d' < d + 1ms (or d = 0 and d' = 1ms)
proof fn lemma_roundtrip(ns: nat, r: nat)
    requires ticks_ok(ns, r)
    ensures r * 1_000_000 >= ns, r * 1_000_000 < ns + 1_000_000 || (ns == 0 && r == 1), r != 0
{
    assert((r - 1) * 1_000_000 == r * 1_000_000 - 1_000_000) by (nonlinear_arith);
}

//@ obligation: C08.vcanary
//@ property: C08
//@ kind: K1
//@ canary: yes
//@ statement: canary — claims ticks_ok holds for a truncating conversion; must FAIL
proof fn canary_truncation_is_not_ok()
{
    assert(ticks_ok(1_500_000, 1));
}

} // verus!
fn main() {}
