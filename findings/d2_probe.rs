use may::sync::RwLock;
use std::sync::atomic::{AtomicBool, AtomicUsize, Ordering};
use std::sync::{Arc, TryLockError};
use std::thread;

fn poisoned_lock() -> Arc<RwLock<u32>> {
    let l = Arc::new(RwLock::new(0u32));
    let l2 = l.clone();
    let _ = thread::spawn(move || {
        let _g = l2.write().unwrap();
        panic!("poison it");
    })
    .join();
    assert!(l.is_poisoned());
    l
}

// D2a: the read guard inside the Poisoned error of try_read was never counted
#[test]
fn try_read_on_poisoned_lock_releases_what_it_acquired() {
    let l = poisoned_lock();
    let r = std::panic::catch_unwind(std::panic::AssertUnwindSafe(|| match l.try_read() {
        Err(TryLockError::Poisoned(e)) => drop(e.into_inner()),
        Ok(_) => panic!("expected a poisoned result"),
        Err(TryLockError::WouldBlock) => panic!("lock is free"),
    }));
    assert!(r.is_ok(), "dropping the guard recovered from the PoisonError panicked");
    // all guards are gone: a writer must get the lock
    assert!(!matches!(l.try_write(), Err(TryLockError::WouldBlock)), "lock leaked");
}

// D2b: on a poisoned lock a lost CAS race is reported as Poisoned, which try_write treats as acquired
#[test]
fn try_write_on_poisoned_lock_is_exclusive() {
    let l = poisoned_lock();
    let inside = Arc::new(AtomicUsize::new(0));
    let bad = Arc::new(AtomicBool::new(false));
    let mut hs = vec![];
    for _ in 0..16 {
        let (l, inside, bad) = (l.clone(), inside.clone(), bad.clone());
        hs.push(thread::spawn(move || {
            for _ in 0..2_000_000 {
                let g = match l.try_write() {
                    Ok(g) => Some(g),
                    Err(TryLockError::Poisoned(e)) => Some(e.into_inner()),
                    Err(TryLockError::WouldBlock) => None,
                };
                if let Some(g) = g {
                    if inside.fetch_add(1, Ordering::SeqCst) != 0 {
                        bad.store(true, Ordering::SeqCst);
                    }
                    inside.fetch_sub(1, Ordering::SeqCst);
                    drop(g);
                }
                if bad.load(Ordering::Relaxed) {
                    return;
                }
            }
        }));
    }
    for h in hs {
        let _ = h.join();
    }
    assert!(!bad.load(Ordering::SeqCst), "two write guards were alive at the same time");
}
