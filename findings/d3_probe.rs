use std::sync::atomic::{AtomicUsize, Ordering};
use std::sync::{Arc, Barrier};
use std::time::{Duration, Instant};

// D3b: mpmc — after the last sender is dropped no receiver may hang
#[test]
fn mpmc_no_receiver_hangs_after_last_sender_drop() {
    for round in 0..20000 {
        let (tx, rx1) = may::sync::mpmc::channel::<u8>();
        let rx2 = rx1.clone();
        let done = Arc::new(AtomicUsize::new(0));
        let start = Arc::new(Barrier::new(3));
        let mut hs = vec![];
        for rx in [rx1, rx2] {
            let (done, start) = (done.clone(), start.clone());
            hs.push(std::thread::spawn(move || {
                start.wait();
                let _ = rx.recv();
                done.fetch_add(1, Ordering::SeqCst);
            }));
        }
        start.wait();
        drop(tx);
        let t = Instant::now();
        while done.load(Ordering::SeqCst) < 2 {
            if t.elapsed() > Duration::from_secs(3) {
                panic!("round {round}: a receiver is still blocked 3s after the last sender was dropped");
            }
            std::thread::yield_now();
        }
        for h in hs {
            h.join().unwrap();
        }
    }
}

// D3a: spsc — a coroutine receiver must not sleep forever when the sender is dropped while it goes to sleep
#[test]
fn spsc_coroutine_receiver_sees_sender_drop() {
    may::config().set_workers(2);
    for round in 0..60000 {
        let (tx, rx) = may::sync::spsc::channel::<u8>();
        let done = Arc::new(AtomicUsize::new(0));
        let d = done.clone();
        let h = unsafe {
            may::coroutine::spawn(move || {
                let _ = rx.recv();
                d.fetch_add(1, Ordering::SeqCst);
            })
        };
        // let the receiver reach its try_recv / yield, then drop
        for _ in 0..(round % 3000) {
            std::hint::spin_loop();
        }
        drop(tx);
        let t = Instant::now();
        while done.load(Ordering::SeqCst) < 1 {
            if t.elapsed() > Duration::from_secs(3) {
                panic!("round {round}: the coroutine receiver is still blocked 3s after the sender was dropped");
            }
            std::thread::yield_now();
        }
        h.join().unwrap();
    }
}
