use may::sync::{Condvar, Mutex};
use std::sync::Arc;
use std::time::Duration;

#[test]
fn cancel_during_condvar_relock_keeps_mutex_sound() {
    let pair = Arc::new((Mutex::new(0u32), Condvar::new()));
    let p = pair.clone();
    let a = unsafe {
        may::coroutine::spawn(move || {
            let (m, cv) = &*p;
            let g = m.lock().unwrap();
            let mut g = cv.wait(g).unwrap();
            *g += 1;
        })
    };
    std::thread::sleep(Duration::from_millis(100));
    // take the mutex, then notify: A leaves the condvar and blocks in the re-lock (cancel disabled)
    let g = pair.0.lock().unwrap();
    pair.1.notify_one();
    std::thread::sleep(Duration::from_millis(100));
    unsafe { a.coroutine().cancel() };
    std::thread::sleep(Duration::from_millis(100));
    drop(g);
    let _ = a.join();
    // nobody holds the mutex now
    let r = pair.0.try_lock();
    assert!(r.is_ok(), "mutex is free but try_lock fails: its count was corrupted");
}
