use std::time::{Duration, Instant};
#[test]
fn sub_ms_timeout_fires() {
    let (done_tx, done_rx) = std::sync::mpsc::channel();
    let _h = unsafe { may::coroutine::spawn(move || {
        let (_tx, rx) = may::sync::mpsc::channel::<()>();
        let t = Instant::now();
        let r = rx.recv_timeout(Duration::from_micros(300));
        done_tx.send((r.is_err(), t.elapsed())).unwrap();
    }) };
    let r = done_rx.recv_timeout(Duration::from_secs(3));
    assert!(r.is_ok(), "recv_timeout(300us) never returned within 3s");
}
#[test]
fn fractional_ms_not_early() {
    let h = unsafe { may::coroutine::spawn(move || {
        let (_tx, rx) = may::sync::mpsc::channel::<()>();
        let d = Duration::from_micros(20_900);
        let t = Instant::now();
        let _ = rx.recv_timeout(d);
        (t.elapsed(), d)
    }) };
    let (el, d) = h.join().unwrap();
    assert!(el >= d, "returned after {:?} < {:?}", el, d);
}
