use std::sync::atomic::{AtomicBool, Ordering};
use std::sync::Arc;
use std::time::Duration;

// a scope must not be left (not even by a cancellation unwind of its owner) while a child still runs
#[test]
fn cancelled_scope_owner_waits_for_its_children() {
    let child_done = Arc::new(AtomicBool::new(false));
    let cd = child_done.clone();
    let owner = unsafe {
        may::coroutine::spawn(move || {
            let frame_data = [1u8; 64]; // borrowed by the child
            may::coroutine::scope(|s| unsafe {
                s.spawn(|| {
                    for _ in 0..30 {
                        may::coroutine::sleep(Duration::from_millis(10));
                        assert_eq!(frame_data[7], 1);
                    }
                    cd.store(true, Ordering::SeqCst);
                });
            });
        })
    };
    std::thread::sleep(Duration::from_millis(100));
    unsafe { owner.coroutine().cancel() };
    let _ = owner.join();
    // the owner's frame is gone now
    assert!(child_done.load(Ordering::SeqCst), "the scope was left while its child was still running");
}
