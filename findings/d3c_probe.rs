use std::sync::atomic::{AtomicUsize, Ordering};
use std::sync::{Arc, Barrier};
use std::time::{Duration, Instant};

// mpmc: one value is sent and the last sender is dropped while two receivers are about to block:
// one receiver gets the value, the other one must get Disconnected (not hang)
#[test]
fn mpmc_send_then_drop_strands_nobody() {
    for round in 0..20000 {
        let (tx, rx1) = may::sync::mpmc::channel::<u8>();
        let rx2 = rx1.clone();
        let done = Arc::new(AtomicUsize::new(0));
        let start = Arc::new(Barrier::new(3));
        let mut hs = vec![];
        for rx in [rx1, rx2] {
            let (done, start) = (done.clone(), start.clone());
            hs.push(std::thread::spawn(move || {
                start.wait();
                let _ = rx.recv();
                done.fetch_add(1, Ordering::SeqCst);
            }));
        }
        start.wait();
        tx.send(1).unwrap();
        drop(tx);
        let t = Instant::now();
        while done.load(Ordering::SeqCst) < 2 {
            if t.elapsed() > Duration::from_secs(3) {
                panic!("round {round}: a receiver is still blocked 3s after the last sender was dropped");
            }
            std::thread::yield_now();
        }
        for h in hs {
            h.join().unwrap();
        }
    }
}
