#!/usr/bin/env python3
"""
Contract-verification pipeline for `may` (see /verif/DESIGN.md §2).

    pipeline.py <PROPERTY-ID> quick|thorough      decide one property on /repo's current working tree
    pipeline.py list                              print the obligation table (also written to contracts/table.json)
    pipeline.py selftest                          cheap sanity check used by MANIFEST.setup_cmd

Exit codes: 0 property held on everything explored, 1 VIOLATION (unlisted), 2 UNDECIDED (tool limit,
lost anchor, compile error, time-out, unsatisfied cover, canary that did not fail).

One run = copy /repo's working tree to a scratch directory, inject the harness module(s) and contract
attributes, compile once with `cargo kani --only-codegen`, run every obligation's harness in its own
`cargo kani --harness … --exact` process, run the Verus files of the property, classify, write evidence.
"""
import concurrent.futures as cf
import hashlib
import json
import os
import re
import resource
import shutil
import signal
import subprocess
import sys
import time

VERIF = os.path.dirname(os.path.dirname(os.path.abspath(__file__)))
REPO = os.environ.get("VERIF_REPO", "/repo")
SCRATCH_ROOT = os.environ.get("VERIF_SCRATCH", "/var/tmp/verif-scratch")
KANI_DIRS = {"may": os.path.join(VERIF, "kani", "may"), "may_queue": os.path.join(VERIF, "kani", "may_queue")}
CRATE_ROOT = {"may": "", "may_queue": "may_queue"}
VERUS_DIR = os.path.join(VERIF, "verus")
KANI_FLAGS = ["-Z", "unstable-options", "--ignore-global-asm", "-Z", "stubbing", "-Z", "function-contracts",
              "--no-assertion-reach-checks"]
JOBS = int(os.environ.get("VERIF_JOBS", "12"))
MEM_LIMIT_GB = int(os.environ.get("VERIF_MEM_GB", "14"))
DEFAULT_TIMEOUT = {"quick": 1200, "thorough": 3600}
ENV = dict(os.environ, CARGO_NET_OFFLINE="true", CARGO_TERM_COLOR="never")
ENV.pop("RUSTFLAGS", None)

# runs against anything but /repo (mutation trials) must not touch the committed evidence
# VERIF_ONLY=<regex>: development filter on obligation ids; such a partial run never writes the evidence of record
ONLY = os.environ.get("VERIF_ONLY")
OUT_ROOT = VERIF if (os.path.realpath(REPO) == "/repo" and not ONLY) else os.path.join(VERIF, ".cache", "trial")

PROP_ASSERT_RE = re.compile(r"^\[(C\d+\.[A-Za-z0-9_.-]+)\]")


def log(*a):
    print(*a, flush=True)


# ----------------------------------------------------------------------------------------------
# obligation table: parsed from `//@ key: value` annotations in the harness / verus sources
# ----------------------------------------------------------------------------------------------
def parse_annotations(path, crate, engine):
    """Return a list of obligation dicts declared in one source file."""
    obs = []
    cur = {}
    file_defaults = {}
    mod = os.path.splitext(os.path.basename(path))[0]
    fn_re = re.compile(r"^\s*(?:pub(?:\([a-z]+\))?\s+)?(?:proof\s+|exec\s+|spec\s+)?(?:unsafe\s+)?fn\s+([A-Za-z0-9_]+)")
    for line in open(path, encoding="utf-8"):
        m = re.match(r"^\s*//@\s*([a-z-]+):\s*(.*?)\s*$", line)
        if m:
            k, v = m.group(1), m.group(2)
            if k.startswith("file-"):
                file_defaults[k[5:]] = v
            elif k in cur and k in ("statement", "functions", "assumes"):
                cur[k] += " " + v
            else:
                cur[k] = v
            continue
        m = fn_re.match(line)
        if not m:
            m = re.match(r"^\s*//@@ EXTRACT\s.*\bfn=([A-Za-z0-9_]+)", line)
        if m and "obligation" in cur:
            ob = dict(file_defaults)
            ob.update(cur)
            ob["fn"] = m.group(1)
            ob["file"] = path
            ob["crate"] = crate
            ob["engine"] = engine
            ob["inject"] = ob.get("inject", "")
            if ob.get("modpath"):
                # explicit module path of the injection target (needed where `#[path]` attributes rename modules)
                hn = ob["modpath"] + "::vk_" + mod + "::" + m.group(1)
            else:
                hn = kani_mod_path(crate, ob["inject"], mod) + "::" + m.group(1)
            ob["harness"] = hn if engine == "kani" else m.group(1)
            ob["property"] = ob.get("property", "").split()
            ob["tier"] = ob.get("tier", "quick")
            ob["complete"] = ob.get("complete", "yes").lower() in ("yes", "true")
            ob["canary"] = ob.get("canary", "no").lower() in ("yes", "true")
            ob["playback"] = ob.get("playback", "no").lower() in ("yes", "true")
            ob["safety_counts"] = ob.get("safety-counts", "no").lower() in ("yes", "true")
            ob["functions"] = [f.strip() for f in ob.get("functions", "").split(",") if f.strip()]
            ob["kind"] = ob.get("kind", "K3")
            obs.append(ob)
            cur = {}
        elif m:
            cur = {}
    return obs


def kani_mod_path(crate, inject, mod):
    """fully qualified module path of an injected harness file. `inject` is the source file (relative to the
    crate root, e.g. src/sync/mutex.rs) the file is appended to as a child module (white-box access to the
    private items of that module); empty = crate root."""
    name = "vk_" + mod
    if not inject:
        return name
    rel = inject
    if CRATE_ROOT[crate] and rel.startswith(CRATE_ROOT[crate] + "/"):
        rel = rel[len(CRATE_ROOT[crate]) + 1:]
    if rel.startswith("src/"):
        rel = rel[4:]
    rel = rel[:-3] if rel.endswith(".rs") else rel
    parts = [x for x in rel.split("/") if x]
    if parts and parts[-1] in ("mod", "lib"):
        parts = parts[:-1]
    return "::".join(parts + [name])


def load_table():
    obs = []
    for crate, d in KANI_DIRS.items():
        if not os.path.isdir(d):
            continue
        for f in sorted(os.listdir(d)):
            if f.endswith(".rs") and f not in ("mod.rs",):
                obs += parse_annotations(os.path.join(d, f), crate, "kani")
    if os.path.isdir(VERUS_DIR):
        for f in sorted(os.listdir(VERUS_DIR)):
            if f.endswith(".rs"):
                obs += parse_annotations(os.path.join(VERUS_DIR, f), "-", "verus")
    ids = {}
    for o in obs:
        if o["obligation"] in ids:
            raise SystemExit(f"duplicate obligation id {o['obligation']} in {o['file']} and {ids[o['obligation']]}")
        ids[o["obligation"]] = o["file"]
    return obs


def public_row(o):
    return {k: o[k] for k in ("obligation", "property", "kind", "complete", "tier", "engine", "crate", "harness",
                                "functions", "canary") if k in o} | {
        "statement": o.get("statement", ""), "bound": o.get("bound", ""), "source": os.path.relpath(o["file"], VERIF)}


# ----------------------------------------------------------------------------------------------
# scratch copy + injection
# ----------------------------------------------------------------------------------------------
class Undecided(Exception):
    pass


def make_scratch(tag):
    os.makedirs(SCRATCH_ROOT, exist_ok=True)
    d = os.path.join(SCRATCH_ROOT, f"{tag}-{os.getpid()}")
    if os.path.exists(d):
        shutil.rmtree(d)
    subprocess.run(["rsync", "-a", "--exclude", "/target", "--exclude", ".git", REPO.rstrip("/") + "/", d + "/"], check=True)
    return d


def inject_contract_attrs(scratch, notes, pid):
    """Insert `#[cfg_attr(kani, kani::requires/ensures(..))]` lines in front of the functions listed in
    contracts/inplace.json (annotate-in-place on the scratch copy; the function text itself is untouched)."""
    p = os.path.join(VERIF, "contracts", "inplace.json")
    if not os.path.exists(p):
        return
    for c in json.load(open(p)):
        if pid not in c.get("properties", []):
            continue
        path = os.path.join(scratch, c["file"])
        if not os.path.exists(path):
            raise Undecided(f"lost anchor: file {c['file']} not found")
        src = open(path, encoding="utf-8").read().split("\n")
        pat = re.compile(c["anchor"])
        hits = [i for i, l in enumerate(src) if pat.search(l)]
        if len(hits) != 1:
            raise Undecided(f"lost anchor: {c['anchor']!r} matches {len(hits)} lines in {c['file']}")
        i = hits[0]
        # step back over attributes / doc comments directly attached to the fn
        while i > 0 and re.match(r"^\s*(#\[|///)", src[i - 1]):
            i -= 1
        indent = re.match(r"^\s*", src[hits[0]]).group(0)
        src[i:i] = [indent + a for a in c["attrs"]]
        open(path, "w", encoding="utf-8").write("\n".join(src))
        notes.append(f"contract attributes inserted before `{c['anchor']}` in {c['file']}")


def file_inject_target(path):
    for line in open(path, encoding="utf-8"):
        m = re.match(r"^\s*//@\s*file-inject:\s*(\S+)", line)
        if m:
            return m.group(1)
    return ""


def inject(scratch, crates, files_by_crate, notes, pid):
    for crate in crates:
        root = os.path.join(scratch, CRATE_ROOT[crate])
        lib = os.path.join(root, "src", "lib.rs")
        if not os.path.exists(lib):
            raise Undecided(f"lost anchor: {lib} missing")
        dst = os.path.join(root, "src", "verif_kani")
        os.makedirs(dst, exist_ok=True)
        # many #[kani::stub] attributes on one harness exceed rustc's default macro recursion limit
        lib_src = open(lib, encoding="utf-8").read()
        open(lib, "w", encoding="utf-8").write('#![cfg_attr(kani, recursion_limit = "1024")]\n' + lib_src)
        allow = "#[allow(dead_code, unused_imports, unused_variables, unused_mut, static_mut_refs, unused_unsafe, clippy::all)]"
        for f in sorted(files_by_crate[crate]):
            base = os.path.basename(f)
            shutil.copy(f, os.path.join(dst, base))
            mod = "vk_" + os.path.splitext(base)[0]
            target = file_inject_target(f)
            tfile = os.path.join(scratch, target) if target else lib
            if not os.path.exists(tfile):
                raise Undecided(f"lost anchor: injection target {target} missing")
            with open(tfile, "a") as fh:
                fh.write(f"\n#[cfg(kani)]\n{allow}\n#[path = \"{os.path.join(dst, base)}\"]\npub(crate) mod {mod};\n")
            notes.append(f"harness module {mod} appended to {os.path.relpath(tfile, scratch)} of the scratch copy under cfg(kani)")
    # the shims are copied into the scratch tree and given the version the tree's Cargo.lock pins (a [patch] with
    # another version is silently ignored by cargo)
    lock_txt = ""
    lock = os.path.join(scratch, "Cargo.lock")
    if os.path.exists(lock):
        lock_txt = open(lock, encoding="utf-8").read()
    shim_root = os.path.join(scratch, "_shims")
    cargo = os.path.join(scratch, "Cargo.toml")
    with open(cargo, "a") as fh:
        fh.write("\n[patch.crates-io]\n")
        for name in ("generator", "parking_lot"):
            dst = os.path.join(shim_root, name)
            shutil.copytree(os.path.join(VERIF, "kani", "shims", name), dst)
            m = re.search(r'name = "%s"\nversion = "([^"]+)"\nsource = "registry' % name, lock_txt)
            if m:
                ct = os.path.join(dst, "Cargo.toml")
                txt = open(ct).read()
                txt = re.sub(r'(?m)^version = "[^"]+"', 'version = "%s"' % m.group(1), txt, count=1)
                open(ct, "w").write(txt)
            fh.write(f'{name} = {{ path = "{dst}" }}\n')
    notes.append("[patch.crates-io] generator, parking_lot -> copies of /verif/kani/shims (abstract stand-ins)")
    inject_contract_attrs(scratch, notes, pid)


# ----------------------------------------------------------------------------------------------
# running Kani
# ----------------------------------------------------------------------------------------------
def _limits(gb=None):
    os.setsid()
    lim = (gb or MEM_LIMIT_GB) * (1 << 30)
    try:
        resource.setrlimit(resource.RLIMIT_AS, (lim, lim))
    except Exception:
        pass


def run_cmd(cmd, cwd, timeout, limit_mem=False, mem_gb=None):
    t0 = time.time()
    p = subprocess.Popen(cmd, cwd=cwd, env=ENV, stdout=subprocess.PIPE, stderr=subprocess.STDOUT, text=True,
                         preexec_fn=(lambda: _limits(mem_gb)) if limit_mem else os.setsid)
    try:
        out, _ = p.communicate(timeout=timeout)
        rc = p.returncode
    except subprocess.TimeoutExpired:
        try:
            os.killpg(p.pid, signal.SIGKILL)
        except Exception:
            pass
        out, _ = p.communicate()
        rc = -9
        out += "\n[pipeline] TIMEOUT after %ds\n" % timeout
    return rc, out, time.time() - t0


def kani_build(scratch, crates):
    """one codegen for all injected harnesses of each crate"""
    total = 0.0
    for crate in crates:
        cmd = ["cargo", "kani"] + KANI_FLAGS + ["--only-codegen"]
        if crate == "may_queue":
            cmd += ["-p", "may_queue"]
        rc, out, dt = run_cmd(cmd, scratch, 1500)
        total += dt
        if rc != 0:
            tail = "\n".join(out.splitlines()[-60:])
            raise Undecided(f"kani build of {crate} failed (rc={rc}); compile error, unsupported construct or tool crash:\n{tail}")
    return total


def parse_kani(out):
    r = {"verdict": None, "failed": [], "covers": [], "time": None, "checks": None, "playback": None}
    m = re.search(r"VERIFICATION:- (SUCCESSFUL|FAILED)", out)
    if m:
        r["verdict"] = m.group(1)
    m = re.search(r"Verification Time: ([0-9.]+)s", out)
    if m:
        r["time"] = float(m.group(1))
    m = re.search(r"\*\* (\d+) of (\d+) failed", out)
    if m:
        r["checks"] = int(m.group(2))
    # per-check blocks
    for blk in re.split(r"\n(?=Check \d+: )", out):
        m = re.match(r"Check \d+: (.+)\n\s+- Status: (\S+)\n\s+- Description: \"(.*)\"\n(?:\s+- Location: (.*))?", blk)
        if not m:
            continue
        name, status, desc, loc = m.group(1), m.group(2), m.group(3).strip('"'), (m.group(4) or "").strip()
        if ".cover." in name:
            r["covers"].append({"desc": desc, "status": status, "loc": loc})
        elif status == "FAILURE":
            r["failed"].append({"check": name, "desc": desc, "loc": loc})
    m = re.search(r"Concrete playback unit test for `[^`]+`:\n```\n(.*?)```", out, re.S)
    if m:
        r["playback"] = m.group(1)
    return r


def run_harness(scratch, ob, tier):
    timeout = int(os.environ.get("VERIF_TIMEOUT") or ob.get("timeout", DEFAULT_TIMEOUT[tier]))
    cmd = ["cargo", "kani"] + KANI_FLAGS
    if ob["crate"] == "may_queue":
        cmd += ["-p", "may_queue"]
    cmd += ["--harness", ob["harness"], "--exact"]
    rc, out, dt = run_cmd(cmd, scratch, timeout, limit_mem=True, mem_gb=int(ob["mem"]) if ob.get("mem") else None)
    res = parse_kani(out)
    res.update(rc=rc, wall=dt, out=out, cmd=" ".join(cmd))
    try:
        ld = os.path.join(VERIF, ".cache", "logs")
        os.makedirs(ld, exist_ok=True)
        open(os.path.join(ld, ob["obligation"] + ".log"), "w").write(out)
    except Exception:
        pass
    return res


UNSUPPORTED_PAT = re.compile(r"not currently supported by Kani|unwinding assertion|recursion unwinding|"
                             r"unsupported|is not supported|reachable unsupported|kani::unsupported", re.I)


def classify(ob, res):
    """-> (status, detail) with status in discharged | violated | undecided | canary-ok"""
    out = res["out"]
    if res["verdict"] is None:
        why = "timeout" if "TIMEOUT after" in out else "no verdict (tool crash, out of memory or compile error)"
        return "undecided", {"why": why, "tail": "\n".join(out.splitlines()[-25:])}
    if "out of memory" in out.lower() or "CBMC failed with status" in out:
        return "undecided", {"why": "CBMC ran out of memory or crashed", "tail": "\n".join(out.splitlines()[-12:])}
    prop_fail = [f for f in res["failed"] if PROP_ASSERT_RE.match(f["desc"])]
    other_fail = [f for f in res["failed"] if not PROP_ASSERT_RE.match(f["desc"])]
    tool_fail = [f for f in other_fail if UNSUPPORTED_PAT.search(f["desc"])]
    safety_fail = [f for f in other_fail if not UNSUPPORTED_PAT.search(f["desc"])]
    bad_covers = [c for c in res["covers"] if c["status"] != "SATISFIED"]
    if ob["canary"]:
        if prop_fail and not tool_fail:
            return "canary-ok", {}
        return "undecided", {"why": "canary harness did not fail: its preconditions are vacuous or the tool gave up",
                             "failed": res["failed"]}
    if res["verdict"] == "SUCCESSFUL":
        if bad_covers:
            return "undecided", {"why": "cover point not satisfied (obligation would be vacuous)", "covers": bad_covers}
        return "discharged", {}
    # FAILED
    if prop_fail:
        return "violated", {"failed": prop_fail, "also": other_fail}
    if tool_fail:
        return "undecided", {"why": "tool limit: " + tool_fail[0]["desc"], "failed": tool_fail}
    if safety_fail and ob["safety_counts"]:
        return "violated", {"failed": [dict(f, desc=f"[{ob['obligation']}-safety] {f['desc']}") for f in safety_fail]}
    if safety_fail:
        return "undecided", {"why": "a non-property check failed in the verified text (panic / arithmetic / memory "
                                    "check); not a named obligation of this property", "failed": safety_fail}
    if bad_covers:
        return "undecided", {"why": "verdict FAILED only because of cover points", "covers": bad_covers}
    return "undecided", {"why": "FAILED without failed checks", "tail": "\n".join(out.splitlines()[-25:])}


# ----------------------------------------------------------------------------------------------
# replay
# ----------------------------------------------------------------------------------------------
def concrete_playback(scratch, ob):
    """Ask Kani for concrete values and run the harness body natively with them (real code, native build)."""
    cmd = ["cargo", "kani"] + KANI_FLAGS + ["-Z", "concrete-playback", "--concrete-playback=print"]
    if ob["crate"] == "may_queue":
        cmd += ["-p", "may_queue"]
    cmd += ["--harness", ob["harness"], "--exact"]
    rc, out, dt = run_cmd(cmd, scratch, 900, limit_mem=True)
    res = parse_kani(out)
    info = {"kani_playback_test": res["playback"], "native_run": None}
    if not res["playback"]:
        return info
    # append the generated unit test to the harness file inside the scratch copy and run it natively
    root = os.path.join(scratch, CRATE_ROOT[ob["crate"]])
    hf = os.path.join(root, "src", "verif_kani", os.path.basename(ob["file"]))  # the injected copy
    test_src = res["playback"]
    m = re.search(r"fn (kani_concrete_playback_\w+)\(", test_src)
    with open(hf, "a") as fh:
        fh.write("\n#[cfg(test)]\n" + test_src + "\n")
    cmd = ["cargo", "kani", "playback", "-Z", "concrete-playback", "--lib"]
    if ob["crate"] == "may_queue":
        cmd += ["-p", "may_queue"]
    cmd += ["--", m.group(1) if m else "kani_concrete_playback"]
    rc, out, dt = run_cmd(cmd, scratch, 900)
    failed = bool(re.search(r"test result: FAILED", out))
    passed = bool(re.search(r"test result: ok\. 1 passed", out))
    panic_line = ""
    pm = re.search(r"panicked at [^\n]*\n([^\n]*)", out)
    if pm:
        panic_line = pm.group(0)
    info["native_run"] = {"cmd": " ".join(cmd), "reproduced": failed and not passed, "panic": panic_line,
                          "tail": "\n".join(out.splitlines()[-15:]) if not (failed or passed) else ""}
    return info


def write_replay(pid, ob, res, detail, scratch, tier):
    os.makedirs(os.path.join(OUT_ROOT, "replays"), exist_ok=True)
    path = os.path.join(OUT_ROOT, "replays", f"{pid}-{ob['obligation']}.json")
    rep = {
        "property": pid,
        "obligation": ob["obligation"],
        "statement": ob.get("statement", ""),
        "functions_under_contract": ob["functions"],
        "verifier": "Kani 0.68.0 / CBMC 6.11.0" if ob["engine"] == "kani" else "Verus 0.2026.09.13 / Z3",
        "harness": ob["harness"],
        "checker_cmd": res.get("cmd", ""),
        "failed_checks": detail.get("failed", []),
        "other_failed_checks": detail.get("also", []),
        "tier": tier,
        "verifier_output_excerpt": excerpt(res.get("out", "")),
    }
    has_input = False
    if ob["engine"] == "kani" and ob["playback"] and scratch:
        try:
            pb = concrete_playback(scratch, ob)
            rep["concrete_playback"] = pb
            has_input = bool(pb.get("native_run") and pb["native_run"].get("reproduced"))
        except Exception as e:  # replay is best effort; the violation stands
            rep["concrete_playback"] = {"error": repr(e)}
    rep["failing_input_found"] = has_input
    if not has_input:
        rep["note"] = ("no-failing-input-found: the harness runs the real functions behind stubs (havocked shared reads / "
                       "abstract scheduler), for which Kani's concrete playback is unavailable; the failed named "
                       "obligation and the verifier output are the evidence")
    json.dump(rep, open(path, "w"), indent=1)
    return path, has_input


def excerpt(out):
    lines = out.splitlines()
    keep = []
    for i, l in enumerate(lines):
        if "FAILURE" in l or "Failed Checks" in l or "VERIFICATION" in l or l.startswith(" File:") or "error" in l.lower()[:12]:
            keep += lines[max(0, i - 2): i + 4]
    seen, res = set(), []
    for l in keep:
        if l not in seen:
            seen.add(l)
            res.append(l)
    return res[:120]


# ----------------------------------------------------------------------------------------------
# Verus
# ----------------------------------------------------------------------------------------------
def extract_fn(src_text, fn_name, impl_of=None):
    """Return the verbatim text of `fn <fn_name>` (signature through the matching closing brace)."""
    text = src_text
    start_search = 0
    if impl_of:
        m = re.search(r"^impl(?:<[^>]*>)?\s+(?:[\w:<>, ]+\s+for\s+)?" + re.escape(impl_of) + r"\b[^{]*\{", text, re.M)
        if not m:
            return None
        start_search = m.end()
    m = re.compile(r"^[ \t]*(?:pub(?:\([a-z]+\))?\s+)?(?:const\s+)?(?:unsafe\s+)?fn\s+" + re.escape(fn_name) + r"\b", re.M).search(text, start_search)
    if not m:
        return None
    i = text.index("{", m.end())
    depth, j = 0, i
    while True:
        c = text[j]
        if c == "{":
            depth += 1
        elif c == "}":
            depth -= 1
            if depth == 0:
                break
        j += 1
    return text[m.start(): i], text[i: j + 1]


def build_verus_file(tmpl_path, scratch, out_path, notes):
    """Expand `//@@ EXTRACT file=… fn=… [impl=…]` directives with the verbatim function text from the scratch
    copy. Lines `//@@ SIG …` replace the signature (e.g. to name the return value), `//@@ SPEC …` lines are
    inserted between signature and body, `//@@ REWRITE a => b` apply declared textual rewrites to the body
    (each rewrite is recorded in the evidence)."""
    lines = open(tmpl_path, encoding="utf-8").read().split("\n")
    out = []
    i = 0
    while i < len(lines):
        l = lines[i]
        ms = re.match(r"^\s*//@@ SNIPPET\s+(.*)$", l)
        if ms:
            # `//@@ SNIPPET file=… fn=… until=<text>`: the statements of fn's body from its opening brace up to (not
            # including) the first line that contains <text>, verbatim. What is dropped: the rest of the body.
            head, _, until = ms.group(1).partition(" until=")
            args = dict(kv.split("=", 1) for kv in head.split())
            path = os.path.join(scratch, args["file"])
            if not os.path.exists(path):
                raise Undecided(f"lost anchor: {args['file']} missing")
            got = extract_fn(open(path, encoding="utf-8").read(), args["fn"], args.get("impl"))
            if not got:
                raise Undecided(f"lost anchor: fn {args['fn']} not found in {args['file']}")
            body_lines = got[1].split("\n")[1:]
            taken = []
            found = False
            for bl in body_lines:
                if until and until in bl:
                    found = True
                    break
                taken.append(bl)
            if not found:
                raise Undecided(f"lost anchor: {until!r} not found in fn {args['fn']} ({args['file']})")
            taken = [t for t in taken if not t.strip().startswith("//")]
            out.append(f"    // ---- first {len(taken)} statement lines of {args['file']} fn {args['fn']}, verbatim (rest of the body dropped) ----")
            out += taken
            notes.append(f"verus: first {len(taken)} statement lines of fn {args['fn']} ({args['file']}) extracted verbatim up to {until!r}; the rest of the body is dropped")
            i += 1
            continue
        m = re.match(r"^\s*//@@ EXTRACT\s+(.*)$", l)
        if not m:
            out.append(l)
            i += 1
            continue
        args = dict(kv.split("=", 1) for kv in m.group(1).split())
        sig_override, spec, rewrites = None, [], []
        i += 1
        while i < len(lines) and re.match(r"^\s*//@@ (SIG|SPEC|REWRITE)\b", lines[i]):
            kind, rest = re.match(r"^\s*//@@ (SIG|SPEC|REWRITE)\s?(.*)$", lines[i]).groups()
            if kind == "SIG":
                sig_override = rest
            elif kind == "SPEC":
                spec.append(rest)
            else:
                a, b = rest.split(" => ", 1)
                rewrites.append((a, b))
            i += 1
        path = os.path.join(scratch, args["file"])
        if not os.path.exists(path):
            raise Undecided(f"lost anchor: {args['file']} missing")
        got = extract_fn(open(path, encoding="utf-8").read(), args["fn"], args.get("impl"))
        if not got:
            raise Undecided(f"lost anchor: fn {args['fn']} not found in {args['file']}")
        sig, body = got
        for a, b in rewrites:
            if a not in body and a not in sig:
                raise Undecided(f"lost anchor: rewrite source {a!r} not found in fn {args['fn']} ({args['file']})")
            body = body.replace(a, b)
            sig = sig.replace(a, b)
        out.append(f"// ---- extracted verbatim from {args['file']} fn {args['fn']} "
                   f"({len(rewrites)} declared rewrites) ----")
        out.append(sig_override if sig_override else sig.rstrip())
        out += spec
        out.append(body)
        notes.append(f"verus: fn {args['fn']} extracted verbatim from {args['file']}"
                     + (f"; rewrites: {rewrites}" if rewrites else ""))
    open(out_path, "w", encoding="utf-8").write("\n".join(out))


def run_verus(file_path, obs, scratch, tier, notes):
    """Run one Verus file; returns {obligation_id: (status, detail, seconds)} for obligations declared in it."""
    work = os.path.join(scratch, "_verus")
    os.makedirs(work, exist_ok=True)
    gen = os.path.join(work, os.path.basename(file_path))
    results = {}
    try:
        build_verus_file(file_path, scratch, gen, notes)
    except Undecided as e:
        for o in obs:
            results[o["obligation"]] = ("undecided", {"why": str(e)}, 0.0)
        return results
    cmd = ["verus", gen, "--output-json", "--time", "--multiple-errors", "20"]
    rc, out, dt = run_cmd(cmd, work, 900)
    js = None
    jstart = None
    for mm in re.finditer(r"(?m)^\{$", out):
        jstart = mm.start()
        try:
            js = json.loads(out[jstart:])
            break
        except Exception:
            js = None
    failed_fns = set()
    fn_line = {}
    src_lines = open(gen).read().split("\n")
    if js is None or "verification-results" not in js:
        for o in obs:
            results[o["obligation"]] = ("undecided", {"why": "verus produced no result (syntax/type error or crash)",
                                                       "tail": "\n".join(out.splitlines()[-30:])}, dt)
        return results
    vr = js["verification-results"]
    stderr_txt = out[:jstart] if jstart is not None else out
    # map error line numbers to enclosing fn
    err_lines = [int(x) for x in re.findall(re.escape(os.path.basename(gen)) + r":(\d+):\d+", stderr_txt)]
    fn_starts = []
    for n, l in enumerate(src_lines, 1):
        m = re.match(r"^\s*(?:pub(?:\([a-z]+\))?\s+)?(?:proof\s+|exec\s+|spec\s+|open\s+|closed\s+)*(?:const\s+)?(?:unsafe\s+)?fn\s+([A-Za-z0-9_]+)", l)
        if m:
            fn_starts.append((n, m.group(1)))
    for el in err_lines:
        owner = None
        for n, name in fn_starts:
            if n <= el:
                owner = name
        if owner:
            failed_fns.add(owner)
    total_errors = vr.get("errors", 0)
    solver_s = None
    try:
        solver_s = js["times-ms"]["total"] / 1000.0
    except Exception:
        solver_s = dt
    for o in obs:
        fns = [o["fn"]] + [x for x in o.get("verus-fns", "").split() if x]
        if o["canary"]:
            if any(f in failed_fns for f in fns):
                results[o["obligation"]] = ("canary-ok", {}, solver_s)
            else:
                results[o["obligation"]] = ("undecided", {"why": "verus canary did not fail"}, solver_s)
        elif any(f in failed_fns for f in fns):
            det = {"failed": [{"check": f, "desc": f"[{o['obligation']}-verus] verus could not discharge {f}", "loc": gen}
                              for f in fns if f in failed_fns], "stderr": stderr_txt[-4000:]}
            results[o["obligation"]] = ("violated", det, solver_s)
        elif total_errors > 0 and not failed_fns:
            results[o["obligation"]] = ("undecided", {"why": "verus reported errors that could not be attributed",
                                                       "tail": stderr_txt[-3000:]}, solver_s)
        else:
            results[o["obligation"]] = ("discharged", {"verified_fns_in_file": vr.get("verified")}, solver_s)
    return results


# ----------------------------------------------------------------------------------------------
# trusted-base scan
# ----------------------------------------------------------------------------------------------
def scan_trusted(files):
    found = {}
    pats = [("kani::assume", r"kani::assume\("), ("kani::stub", r"#\[kani::stub\(([^)]*)\)"),
            ("external_body", r"external_body"), ("assume_specification", r"assume_specification"),
            ("admit", r"\badmit\(\)"), ("verus assume", r"(?<![:\w])assume\(")]
    for f in files:
        try:
            txt = open(f, encoding="utf-8").read()
        except Exception:
            continue
        for name, p in pats:
            hits = re.findall(p, txt)
            if hits:
                if name == "kani::stub":
                    for h in sorted(set(hits)):
                        found.setdefault("stub " + " ".join(h.split()), 0)
                        found["stub " + " ".join(h.split())] += 1
                else:
                    found[f"{name} x{len(hits)} in {os.path.relpath(f, VERIF)}"] = len(hits)
    return sorted(found.keys())


BASE_TRUST = [
    "Kani 0.68.0 / CBMC 6.11.0 / CaDiCaL and Verus 0.2026.09.13 / Z3 themselves; --ignore-global-asm",
    "generator crate replaced by the abstract shim /verif/kani/shims/generator (no stack switch, unwinding or stack reuse is verified)",
    "parking_lot replaced by the single-threaded shim /verif/kani/shims/parking_lot",
    "sequential consistency: memory orderings are ignored by CBMC; no thread interleaving is explored (interference only as havocked shared reads)",
    "crossbeam AtomicCell/SegQueue/Backoff executed sequentially; their concurrency is trusted",
    "Rust move-only ownership of CoroutineImpl",
]


# ----------------------------------------------------------------------------------------------
# known findings
# ----------------------------------------------------------------------------------------------
def load_known():
    p = os.path.join(VERIF, "known_findings.json")
    if not os.path.exists(p):
        return []
    return json.load(open(p)).get("entries", [])


def match_known(known, pid, ob, failed_descs):
    """A violation is 'known' only if every failed property assertion of this obligation is listed."""
    listed = [k for k in known if k.get("status") == "finding" and k["property"] == pid and k["obligation"] == ob["obligation"]]
    if not listed:
        return None
    labels = set()
    for k in listed:
        labels.update(k.get("checks", []))
    mine = set()
    for d in failed_descs:
        m = PROP_ASSERT_RE.match(d)
        mine.add(m.group(1) if m else d)
    if mine and mine <= labels:
        return listed
    return None


def check_mirrors(scratch, files_by_crate, notes):
    """`//@ file-mirror: <repo file> :: <text>`: a harness file contains a verbatim COPY of a few lines of the code under
    verification (a callee used as its own contract where the real function cannot be compiled or called). The copy is only
    meaningful while the real text is unchanged: every mirrored text (whitespace-normalised) must still occur in the named
    file of the tree being checked, otherwise the run is UNDECIDED (lost anchor) instead of silently using a stale copy."""
    norm = lambda t: re.sub(r"\s+", " ", t).strip()
    for c, files in files_by_crate.items():
        for f in sorted(files):
            for line in open(f, encoding="utf-8"):
                m = re.match(r"^\s*//@\s*file-mirror:\s*(\S+)\s*::\s*(.*)$", line)
                if not m:
                    continue
                path = os.path.join(scratch, m.group(1))
                if not os.path.exists(path):
                    raise Undecided(f"lost anchor: mirrored file {m.group(1)} missing")
                if norm(m.group(2)) not in norm(open(path, encoding="utf-8").read()):
                    raise Undecided(f"lost anchor: the text mirrored by {os.path.basename(f)} no longer occurs in {m.group(1)}: {m.group(2)[:80]!r}")
                notes.append(f"mirrored text still present in {m.group(1)}: {m.group(2)[:60]}")


# ----------------------------------------------------------------------------------------------
# main driver
# ----------------------------------------------------------------------------------------------
def decide(pid, tier):
    t_start = time.time()
    seed = int(os.environ.get("VERIF_SEED", "0") or 0)
    table = load_table()
    obs = [o for o in table if pid in o["property"] and o["tier"] != "experimental" and (tier == "thorough" or o["tier"] == "quick")]
    if ONLY:
        obs = [o for o in obs if re.search(ONLY, o["obligation"])]
    if not obs:
        log(f"UNDECIDED property={pid}: no obligations registered")
        return 2
    kani_obs = [o for o in obs if o["engine"] == "kani"]
    verus_obs = [o for o in obs if o["engine"] == "verus"]
    notes, results = [], {}
    scratch = None
    build_s = 0.0
    try:
        scratch = make_scratch(f"{pid}-{tier}")
        try:
            if kani_obs:
                crates = sorted({o["crate"] for o in kani_obs})
                files_by_crate = {c: set() for c in crates}
                for o in kani_obs:
                    files_by_crate[o["crate"]].add(o["file"])
                for c in crates:
                    sup = os.path.join(KANI_DIRS[c], "support.rs")
                    if os.path.exists(sup):
                        files_by_crate[c].add(sup)
                    # transitive `//@ file-needs: a b` dependencies between harness files
                    todo = list(files_by_crate[c])
                    while todo:
                        f = todo.pop()
                        for line in open(f, encoding="utf-8"):
                            m = re.match(r"^\s*//@\s*file-needs:\s*(.*)$", line)
                            if m:
                                for dep in m.group(1).split():
                                    dp = os.path.join(KANI_DIRS[c], dep + ".rs")
                                    if os.path.exists(dp) and dp not in files_by_crate[c]:
                                        files_by_crate[c].add(dp)
                                        todo.append(dp)
                check_mirrors(scratch, files_by_crate, notes)
                inject(scratch, crates, files_by_crate, notes, pid)
                build_s = kani_build(scratch, crates)
                log(f"[{pid}] kani codegen done in {build_s:.1f}s; running {len(kani_obs)} harnesses, {JOBS} parallel")
                # phase 1: ordinary harnesses in parallel; phase 2: memory-hungry ones (//@ mem: GB) two at a time
                light = [o for o in kani_obs if not o.get("mem")]
                heavy = [o for o in kani_obs if o.get("mem")]
                for group, jobs in ((light, JOBS), (heavy, 2)):
                    if not group:
                        continue
                    with cf.ThreadPoolExecutor(max_workers=jobs) as ex:
                        futs = {ex.submit(run_harness, scratch, o, tier): o for o in group}
                        for fu in cf.as_completed(futs):
                            o = futs[fu]
                            res = fu.result()
                            st, det = classify(o, res)
                            results[o["obligation"]] = (o, st, det, res)
                            log(f"[{pid}]   {o['obligation']:<12} {st:<10} {res['wall']:.1f}s  {o['harness']}")
        except Undecided as e:
            for o in kani_obs:
                if o["obligation"] not in results:
                    results[o["obligation"]] = (o, "undecided", {"why": str(e)}, {"out": str(e), "wall": 0, "time": None, "cmd": ""})
            log(f"[{pid}] UNDECIDED (kani stage): {str(e)[:2000]}")
        # verus
        by_file = {}
        for o in verus_obs:
            by_file.setdefault(o["file"], []).append(o)
        for f, fobs in by_file.items():
            vres = run_verus(f, fobs, scratch, tier, notes)
            for o in fobs:
                st, det, secs = vres[o["obligation"]]
                results[o["obligation"]] = (o, st, det, {"out": json.dumps(det)[:6000], "wall": secs, "time": secs,
                                                          "cmd": f"verus {os.path.basename(f)} --output-json --time (functions re-extracted from the scratch copy)"})
                log(f"[{pid}]   {o['obligation']:<12} {st:<10} {secs:.1f}s  verus:{os.path.basename(f)}::{o['fn']}")

        # ---- verdict ----
        known = load_known()
        violations, known_hits, undecided = [], [], []
        for oid, (o, st, det, res) in sorted(results.items()):
            if st == "violated":
                descs = [f["desc"] for f in det.get("failed", [])]
                k = match_known(known, pid, o, descs)
                if k:
                    known_hits.append((o, k, descs))
                else:
                    violations.append((o, det, res))
            elif st == "undecided":
                undecided.append((o, det))
        for o, k, descs in known_hits:
            for kk in k:
                log(f"KNOWN-FINDING: property={pid} {kk['what']} (obligation {o['obligation']})")
        vio_lines = []
        for o, det, res in violations:
            path, has_input = write_replay(pid, o, res, det, scratch if o["engine"] == "kani" else None, tier)
            first = det["failed"][0]["desc"] if det.get("failed") else ""
            log(f"[{pid}] obligation {o['obligation']} FAILED: {first}")
            vio_lines.append(f"VIOLATION property={pid} replay={path}" + ("" if has_input else " no-failing-input-found"))
        for o, det in undecided:
            log(f"UNDECIDED property={pid} obligation={o['obligation']}: {det.get('why', '')}")

        # ---- evidence ----
        proved, bounded, canaries, per_ob = [], [], [], []
        known_ids = {o["obligation"] for o, _, _ in known_hits}
        for oid, (o, st, det, res) in sorted(results.items()):
            row = {"obligation": oid, "kind": o["kind"], "engine": o["engine"], "harness": o["harness"], "status": st,
                   "complete": o["complete"], "functions": o["functions"], "statement": o.get("statement", ""),
                   "backend": "CBMC 6.11 + CaDiCaL (via Kani 0.68)" if o["engine"] == "kani" else "Verus 0.2026.09.13 + Z3",
                   "solver_s": res.get("time"), "wall_s": round(res.get("wall") or 0, 2),
                   "cbmc_checks": res.get("checks"),
                   "covers": [c["desc"] + "=" + c["status"] for c in res.get("covers", [])] if isinstance(res.get("covers"), list) else []}
            if not o["complete"]:
                row["bound"] = o.get("bound", "")
            if st == "undecided":
                row["why"] = det.get("why", "")
            per_ob.append(row)
            if o["canary"]:
                canaries.append(row)
            elif oid in known_ids:
                pass
            elif o["complete"]:
                proved.append(row)
            else:
                bounded.append(row)
        n_ob = len(proved)
        n_dis = len([r for r in proved if r["status"] == "discharged"])
        fn_set = sorted({f for r in per_ob for f in r["functions"]})
        harness_files = sorted({o["file"] for o in obs})
        trusted = BASE_TRUST + notes + scan_trusted(harness_files)
        ev = {
            "property_id": pid, "tier": tier, "seed": seed, "level": "proof",
            "coverage": {
                "obligations": n_ob, "discharged": n_dis,
                "checker_cmd": "cargo kani " + " ".join(KANI_FLAGS) + " --harness <obligation harness> --exact   (in a scratch copy of /repo with /verif/kani injected); verus <file> --output-json --time",
                "trusted_base": trusted,
                "samples": [{"obligation": r["obligation"], "statement": r["statement"], "harness": r["harness"],
                             "status": r["status"]} for r in per_ob[:40]],
                "functions_under_contract": fn_set,
                "per_obligation": per_ob,
                "bounded_stand_ins": [{"obligation": r["obligation"], "bound": r.get("bound", ""), "status": r["status"],
                                       "statement": r["statement"]} for r in bounded],
                "bounded_total": len(bounded),
                "bounded_passed": len([r for r in bounded if r["status"] == "discharged"]),
                "canaries_failed_as_expected": len([r for r in canaries if r["status"] == "canary-ok"]),
                "canaries_total": len(canaries),
                "covers_satisfied": sum(1 for r in per_ob for c in r["covers"] if c.endswith("=SATISFIED")),
                "covers_total": sum(len(r["covers"]) for r in per_ob),
                "known_findings_hit": [{"obligation": o["obligation"], "checks": d} for o, _, d in known_hits],
                "undecided": [{"obligation": o["obligation"], "why": det.get("why", "")} for o, det in undecided],
                "kani_codegen_s": round(build_s, 1),
                "solver_s_total": round(sum((r["solver_s"] or 0) for r in per_ob), 2),
                "explanation": "obligations/discharged count only complete obligations (loop-free full-domain harnesses, "
                               "Kani function contracts, Verus functions); bounded stand-ins are listed separately and never counted as proved; "
                               "canaries must fail; known findings are excluded from the count and printed as KNOWN-FINDING",
            },
            "assumptions": BASE_TRUST,
            "wall_s": round(time.time() - t_start, 1),
            "violations": len(violations),
        }
        os.makedirs(os.path.join(OUT_ROOT, "evidence"), exist_ok=True)
        json.dump(ev, open(os.path.join(OUT_ROOT, "evidence", f"{pid}.json"), "w"), indent=1)
        for l in vio_lines:
            log(l)
        if violations:
            return 1
        if undecided or n_dis != n_ob or n_ob == 0:
            if n_ob == 0:
                log(f"UNDECIDED property={pid}: zero complete obligations")
            return 2
        log(f"[{pid}] HELD: {n_dis}/{n_ob} obligations discharged, {ev['coverage']['bounded_passed']}/{len(bounded)} bounded stand-ins passed, "
            f"{ev['coverage']['canaries_failed_as_expected']}/{len(canaries)} canaries failed as expected, wall {ev['wall_s']}s")
        return 0
    finally:
        if scratch and not os.environ.get("VERIF_KEEP_SCRATCH"):
            shutil.rmtree(scratch, ignore_errors=True)


def main():
    if len(sys.argv) >= 2 and sys.argv[1] == "list":
        t = load_table()
        os.makedirs(os.path.join(VERIF, "contracts"), exist_ok=True)
        json.dump([public_row(o) for o in t], open(os.path.join(VERIF, "contracts", "table.json"), "w"), indent=1)
        for o in t:
            print(f"{o['obligation']:<14} {' '.join(o['property']):<10} {o['kind']:<3} {'complete' if o['complete'] else 'bounded ':<8} "
                  f"{o['tier']:<8} {o['engine']:<5} {o['harness']}")
        print(len(t), "obligations")
        return 0
    if len(sys.argv) >= 2 and sys.argv[1] == "selftest":
        t = load_table()
        for tool in ("cargo-kani", "verus", "rsync"):
            if not shutil.which(tool):
                print("missing tool", tool)
                return 2
        print("table ok:", len(t), "obligations")
        return 0
    if len(sys.argv) != 3 or sys.argv[2] not in ("quick", "thorough"):
        print(__doc__)
        return 2
    return decide(sys.argv[1], sys.argv[2])


if __name__ == "__main__":
    sys.exit(main())
