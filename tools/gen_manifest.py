#!/usr/bin/env python3
"""Generate /verif/MANIFEST.json from the obligation table and the per-property claims below."""
import json, os, subprocess, sys
VERIF = os.path.dirname(os.path.dirname(os.path.abspath(__file__)))
sys.path.insert(0, os.path.join(VERIF, "tools"))
import pipeline

COMMON_NOTE = ("trusted: Kani 0.68/CBMC 6.11, Verus/Z3; generator and parking_lot replaced by abstract shims; sequential consistency; "
               "no thread interleaving is explored — interference only as environment steps at the stubbed shared-memory operations "
               "(one concurrent party, every interleaving of its atomic steps) or as scripted events; callee contracts stubbed where listed in the evidence; "
               "bounded stand-ins are listed separately in the evidence and are not counted as proved")
TECH = "contract-based deductive verification of the real code: Kani/CBMC function contracts and contract-form harnesses (pre/post over ghost state) on the real crates, Verus kernels/lemmas"

CLAIMS = {
 "C01": "Join side: trigger marks done before waking, wait registers then re-checks and returns only when the coroutine finished (all interleavings of one trigger with the waiter's steps), outcome mapping of join() for all slot combinations. Scheduler hand-over (bounded, 3 workers): schedule / schedule_global put a coroutine on exactly one existing queue and wake the worker that owns it after the push; collect_global moves everything; run_queued_tasks returns only with its own queues empty and runs every coroutine it took exactly once. spawn_impl / run_coroutine life cycle, the queues' concurrent behaviour (C03/C04 sequential contracts are used) and 'never on two threads' are NOT decided.",
 "C02": "Park/unpark decomposed into per-function contracts on the real code: token semantics, park_timeout around the suspension, subscribe's register-then-recheck from every pre-state, each waker (unpark / timer / cancel) taking the coroutine exactly once and the second waker finding nothing, the lost-wake-up window through the real yield path, ThreadPark on the parking_lot shim. The wait_kernel delay-drop window and spurious wake-ups are not decided.",
 "C03": "Index arithmetic of both block queues as Kani function contracts (complete); white-box K3 obligations: consumer never reports empty / reads a reserved unwritten slot, value written before ready/tail-index publication, last-slot block installation (complete, loop-free); sequential FIFO behaviour across block boundaries, recycling and drop as bounded scenario stand-ins. Linearizability under real concurrent producers is NOT decided.",
 "C04": "pack/unpack and mark_slots_read contracts (complete); neither the owner's pop nor a steal takes a slot or changes the head word while another taker has the head marked (complete, one concrete heap shape); sequential exactly-once / order of owner pop and steal_into as bounded scenario stand-ins (copy_to_bulk replaced by its contract because SmallVec+packed pointers exceed 30 GB in CBMC). Concurrent stealers beyond the marked-head hand-over, over-claim/skip paths and ABA are NOT decided.",
 "C05": "lock/try_lock/unlock accounting for every count value; register-before-count ordering; unlock hands over to exactly one live waiter incl. abandoned waiters; a cancelled waiter forwards the hand-off exactly once under every interleaving of one concurrent unpark_one; with cancel disabled the hand-off is kept and not also forwarded (found and fixed D7). Fairness/liveness not decided.",
 "C06": "mpsc/spsc/mpmc channel cores: send makes the value available before it wakes/posts, a blocked or about-to-block receiver is woken by the send under every placement of one concurrent send relative to the receiver's steps, values come out once and in order through the abstract queue contract (queue FIFO itself: C03). Multi-sender/multi-receiver interleavings beyond one concurrent action are NOT decided.",
 "C07": "disconnect: receiver never parks once the last sender is past its wake-up (mpsc, every placement of the drop), drain-before-Disconnected, spsc coroutine subscribe re-checks every wake condition (found and fixed D3a), mpmc disconnect permit is sticky (found and fixed D3b), send after receiver drop returns the value.",
 "C08": "duration conversion used by every coroutine-side timed wait: never lost, never early, within one tick for all durations (Kani bit-precise + Verus unbounded, found and fixed D1); park hands the caller's duration to the timer unchanged; sleep arms one timer with d <= d' < d + 1ms and consumes the time-out result; add_timer's deadline is exactly now + d (Verus, verbatim snippet); the timer thread's pop_timeout never fires an entry that has not expired and misses none that has (two entries, all times), the heap order puts the earliest expiry on top. TimeOutList::schedule_timer / TimerThread::run (the loop that combines these) and wall-clock promptness are NOT decided.",
 "C09": "cancel/park interaction: subscribe re-checks the cancel bit after registering, cancel takes the coroutine exactly once and passes the Canceled result, result consumed before return; the cancel state word (disable/enable nesting, cancel bit kept while disabled, check_cancel panics only when enabled and not unwinding; bounded depth 5); every lock-like primitive forwards a hand-off/permit/notification that raced with the cancellation exactly once (Mutex, RwLock, Semphore, SyncFlag, Condvar), never waits again after it has seen the hand-off, and releases the mutex before the cancel panic without poisoning (poison truth table). Exactly-once drop of stack-owned values during unwinding is NOT decided (generator shim).",
 "C10": "one-step value contracts from every non-negative value (complete induction basis for permit conservation), register-before-decrement, post wakes exactly one and re-posts for abandoned waiters, aborted waits return the permit exactly once under every interleaving with one concurrent wakeup; SyncFlag latch for every counter value incl. late decrements.",
 "C11": "Condvar wait: enqueue-before-unlock-before-park, mutex re-acquired before every return, cancel disable/enable balanced, notification forwarded exactly once on time-out/cancel; notify_one/notify_all on queued waiters; Barrier leader arithmetic for every n, count and generation; WaitGroup drop/notify accounting (wait path bounded, thorough tier).",
 "C12": "guard accounting for every abstract state x clean/poisoned x non-blocking operation (found and fixed D2a), guard only if the caller's own CAS won under interference (found and fixed D2b), cancelled lock forwards the hand-off exactly once, cancelled read releases the reader mutex before the cancel panic. Fairness not decided.",
 "C13": "poison truth table (poisoned iff a panic started under the guard and it is not a cancellation unwind); delivery of exactly the panic payload / Cancel by join(); the panic branch of run_coroutine stores the payload before it triggers the join; a panic passing through a scope leaves the owner's cancel state as it found it (scoped join). Worker survival and stack reuse after a panic are NOT decided (generator shim).",
 "C14": "Join::wait returns only when the joined coroutine has finished, also when the waiter's park is ended by a cancellation (found and fixed D4); the scoped join (JoinState::join) joins its child exactly once with the owner's cancellation disabled and restored afterwards, for every combination of owner context / child result / owner unwinding; Scope::drop_all runs every deferred join exactly once in order and keeps the not-yet-run joins linked in the scope while one runs; dropping a Cqueue cancels the running select coroutines and polls without time-out until poll reports Finished. The re-raise through resume_unwind, scope() itself and the macros are not under contract.",
 "C15": "NARROW claim: the passed-in result (time-out / cancel error) is consumed before park returns, before sleep returns and before the cancel panic, so it cannot leak into the next blocking call or the next coroutine on a pooled stack (C02.10, C08.4a); the panic branch of run_coroutine hands the coroutine to the recycler exactly once after the join trigger (C13.1b); the stack pool hands a recycled stack to at most one spawn (C15.4a, bounded). Privacy of LocalKey values (HashMap) and freshness of the CoroutineLocal attached by spawn are NOT decided: the life-cycle harnesses exceed CBMC's limits (DESIGN.md §9.2 item 7).",
 "C16": "poll's register-then-recheck against one select coroutine sending or ending at each of the poller's observation points (never parks unregistered or with an event queued; returns exactly the event sent, its bottom half started exactly once; Done events are not returned and trigger check_panic once; Finished only with the counter at zero); sender side: send aborts a cancelled arm before any hand-over, stores the extra data, hands over one event and is not aborted by a cancel that arrived while the event was queued (the bottom half runs); subscribe pushes the event with the coroutine inside before waking; Cqueue::drop cancels every unfinished select coroutine, then drains with poll(None) until Finished. Multi-arm schedules, time-outs, check_panic's re-raise and the macros are NOT decided.",
 "C17": "every socket operation struct under src/io/sys/unix/net (read, write, peek, vectored write, TCP/Unix accept, TCP/Unix connect, UDP/Unix datagram send and receive). Worker side (subscribe, complete per operation): coroutine published before the readiness flag is re-read, an edge that raced ahead resumes it exactly once, otherwise it stays published for the selector; the selector side hands it over exactly once. Caller side (done): flag cleared before every syscall, suspension only with the flag clear, no attempt after a final result, kernel result verbatim — read/write/peek for every script of <= 3 attempts (bounded), the others for concrete scripts (bounded; the success path of accept/connect is not under contract). Vectored-write done loop, the epoll loop, kernel semantics, byte-stream integrity above the operation structs and the thread-context branch are NOT under contract.",
 "C18": "time-out conversion read by every I/O time-out (AtomicDuration::get) never lost / never early; timer handle removed and handed to del_timer after a timed park; for every socket operation: I/O timer armed before the coroutine is published and iff a time-out is set, cancel re-checked after registering (a cancel that raced ahead reschedules the coroutine once); EventData::schedule / fast_schedule disarm the timer entry (null the back pointer) before removing it, so a lost removal race cannot time out a later operation; timeout_handler resumes the blocked coroutine once with TimedOut unless disarmed; Selector::del_fd (drop of a socket after a cancelled timed operation) leaves the timer entry disarmed. The epoll loop and the timer thread are not under contract.",
 "C19": "push post-state and consumer-spins-while-push-in-flight as complete white-box obligations; sequential exactly-once / order / remove semantics / reference counting as bounded scenario stand-ins with symbolic payloads under CBMC pointer checks. Concurrent push vs remove is NOT decided.",
}
NOT_YET = {
}

def main():
    table = pipeline.load_table()
    props_with = sorted({p for o in table for p in o["property"]})
    checks = []
    for pid in sorted(CLAIMS):
        if pid not in props_with:
            continue
        checks.append({
            "property_id": pid,
            "quick_cmd": f"./check {pid} quick",
            "thorough_cmd": f"./check {pid} thorough",
            "evidence_file": f"evidence/{pid}.json",
            "replay_cmd_template": "cat {path}",
            "engine": "kani-contracts",
            "level_claimed": {"category": "proof", "text": CLAIMS[pid], "design_ref": f"DESIGN.md §4 {pid} and §9"},
            "level_note": COMMON_NOTE,
            "technique": TECH,
        })
    na = [{"property_id": k, "reason": v} for k, v in sorted(NOT_YET.items()) if k not in CLAIMS or k not in props_with]
    man = {
        "version": 1,
        "setup_cmd": "python3 tools/pipeline.py selftest",
        "hooks": {
            "guard": "kani",
            "enable": "no hook is committed to /repo: every check copies /repo's working tree to a scratch directory, appends `#[cfg(kani)] mod vk_*;` lines to the source files named in each harness file (child modules, white-box access), patches generator/parking_lot to the shims in /verif/kani/shims and runs `cargo kani` there; cfg(kani) is set by the Kani compiler only",
            "baseline_off_cmd": "cd /repo && cargo test --workspace --no-fail-fast --offline",
            "source_commits": [],
            "add_only": True,
        },
        "engines": [
            {"name": "kani-contracts", "path": "tools/pipeline.py", "serves_properties": [c["property_id"] for c in checks],
             "kind_free_text": "Kani 0.68/CBMC function contracts and contract-form harnesses on the real crates (scratch copy, harness modules injected as child modules)"},
            {"name": "verus-kernels-lemmas", "path": "verus/", "serves_properties": ["C01", "C02", "C05", "C06", "C07", "C08", "C09", "C10", "C11", "C12", "C16", "C17", "C18"],
             "kind_free_text": "Verus single-file: functions re-extracted verbatim each run (C08/C18 kernels) plus composition lemmas over the step contracts (L1 register-then-recheck, L2 release handshake; lemmas are about the contracts, not about code, and are listed as such in the evidence)"},
        ],
        "checks": checks,
        "not_applicable": na,
        "notes": "exit codes: 0 held, 1 VIOLATION (unlisted), 2 UNDECIDED (tool limit; never an alarm). Genuine defects found and fixed are in known_findings.json with native demonstrations under findings/.",
    }
    json.dump(man, open(os.path.join(VERIF, "MANIFEST.json"), "w"), indent=1)
    print("checks:", [c["property_id"] for c in checks], "not_applicable:", [n["property_id"] for n in na])

if __name__ == "__main__":
    main()
