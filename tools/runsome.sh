#!/bin/sh
# dev helper: runsome.sh <tier> <Cxx>...  sequentially, prints rc and wall time
tier=$1; shift
cd "$(dirname "$0")/.."
for p in "$@"; do
  s=$(date +%s)
  ./check $p $tier > .cache/logs/all_$p.$tier.out 2>&1
  rc=$?
  e=$(date +%s)
  echo "$p rc=$rc $((e-s))s $(grep -E 'HELD|UNDECIDED|VIOLATION|KNOWN-FINDING' .cache/logs/all_$p.$tier.out | head -3 | cut -c1-160 | tr '\n' '|')"
done
