#!/usr/bin/env python3
"""Generate kani/may/c17_op_<name>.rs: the generic subscribe obligations of kani/may/iosup.rs instantiated for every real
`impl EventSource for <Op>` under src/io/sys/unix/net/. Run by hand when an operation is added; the output is committed."""
import os
VERIF = os.path.dirname(os.path.dirname(os.path.abspath(__file__)))
TCP = "Box::leak(Box::new(unsafe { <std::net::TcpStream as std::os::fd::FromRawFd>::from_raw_fd(9) }))"
TCPL = "Box::leak(Box::new(unsafe { <std::net::TcpListener as std::os::fd::FromRawFd>::from_raw_fd(9) }))"
UDP = "Box::leak(Box::new(unsafe { <std::net::UdpSocket as std::os::fd::FromRawFd>::from_raw_fd(9) }))"
UXL = "Box::leak(Box::new(unsafe { <std::os::unix::net::UnixListener as std::os::fd::FromRawFd>::from_raw_fd(9) }))"
UXD = "Box::leak(Box::new(unsafe { <std::os::unix::net::UnixDatagram as std::os::fd::FromRawFd>::from_raw_fd(9) }))"
SOCK = "unsafe { <socket2::Socket as std::os::fd::FromRawFd>::from_raw_fd(9) }"
TO = "if timed { Some(Duration::from_millis(3)) } else { None }"
BUFM = "Box::leak(Box::new([0u8; 4]))"
BUF = "Box::leak(Box::new([0u8; 4]))"
# name, file, type, ctor, cancellable, timer: "opt" (Option<Duration>), "never", "always"
OPS = [
 ("peek", "socket_peek", "SocketPeek<'static>", f"SocketPeek {{ io_data: io, buf: {BUFM}, timeout: {TO}, is_coroutine: true }}", True, "opt", "a blocked peek"),
 ("writev", "socket_write_vectored", "SocketWriteVectored<'static>", f"SocketWriteVectored {{ io_data: io, bufs: &[], socket: {TCP}, timeout: {TO}, is_coroutine: true }}", False, "opt", "a blocked vectored write"),
 ("accept", "tcp_listener_accept", "TcpListenerAccept<'static>", f"TcpListenerAccept {{ io_data: io, socket: {TCPL}, is_coroutine: true }}", True, "never", "a blocked TCP accept"),
 ("connect", "tcp_stream_connect", "TcpStreamConnect", f"TcpStreamConnect {{ io_data: OptionCell::new(ios::io_clone(io)), stream: OptionCell::new({SOCK}), timeout: {TO}, addr: SocketAddr::from(([127, 0, 0, 1], 80)), is_connected: false, is_coroutine: true }}", True, "opt", "a blocked TCP connect"),
 ("udprecv", "udp_recv_from", "UdpRecvFrom<'static>", f"UdpRecvFrom {{ io_data: io, buf: {BUFM}, socket: {UDP}, timeout: {TO}, is_coroutine: true }}", True, "opt", "a blocked UDP receive"),
 ("udpsend", "udp_send_to", "UdpSendTo<'static, SocketAddr>", f"UdpSendTo {{ io_data: io, buf: {BUF}, socket: {UDP}, addr: std::net::SocketAddr::from(([127, 0, 0, 1], 80)), timeout: {TO}, is_coroutine: true }}", False, "opt", "a blocked UDP send"),
 ("uxaccept", "unix_listener_accept", "UnixListenerAccept<'static>", f"UnixListenerAccept {{ io_data: io, socket: {UXL}, is_coroutine: true }}", True, "never", "a blocked Unix accept"),
 ("uxrecv", "unix_recv_from", "UnixRecvFrom<'static>", f"UnixRecvFrom {{ io_data: io, buf: {BUFM}, socket: {UXD}, timeout: {TO}, is_coroutine: true }}", True, "opt", "a blocked Unix datagram receive"),
 ("uxsend", "unix_send_to", "UnixSendTo<'static>", f"UnixSendTo {{ io_data: io, buf: {BUF}, socket: {UXD}, path: std::path::Path::new(\"/x\"), timeout: {TO}, is_coroutine: true }}", False, "opt", "a blocked Unix datagram send"),
 ("uxconnect", "unix_stream_connect", "UnixStreamConnect", f"UnixStreamConnect {{ io_data: OptionCell::new(ios::io_clone(io)), stream: OptionCell::new({SOCK}), path: socket2::SockAddr::from(std::net::SocketAddr::from(([127, 0, 0, 1], 80))), is_connected: false, is_coroutine: true }}", True, "always", "a blocked Unix connect"),
]
ERR = "Err(std::io::Error::from_raw_os_error"
def sys_body(wb, ok):
    okarm = f"1 => {ok}," if ok else "1 => unreachable!(),"
    return f"""    match ios::syscall_step() {{
        0 => {ERR}({wb})),
        {okarm}
        _ => {ERR}(ios::FATAL)),
    }}"""
ADDR = "SocketAddr::from(([127, 0, 0, 1], 80))"
# name -> (kani stub target, stub fn signature, would-block errno, Ok expression or None, result type, check_ok body)
SYS = {
 "peek": ("nix::sys::socket::recv", "fn sys_stub(_fd: std::os::fd::RawFd, _buf: &mut [u8], _f: MsgFlags) -> nix::Result<usize>", None, None, "usize", "*v == unsafe { ios::OK_N }"),
 "accept": ("std::net::TcpListener::accept", "fn sys_stub(_s: &std::net::TcpListener) -> io::Result<(std::net::TcpStream, SocketAddr)>", "libc::EAGAIN", None, "(TcpStream, SocketAddr)", "false"),
 "connect": ("socket2::Socket::connect", "fn sys_stub(_s: &Socket, _a: &socket2::SockAddr) -> io::Result<()>", "libc::EINPROGRESS", None, "TcpStream", "false"),
 "udprecv": ("std::net::UdpSocket::recv_from", "fn sys_stub(_s: &std::net::UdpSocket, _b: &mut [u8]) -> io::Result<(usize, SocketAddr)>", "libc::EAGAIN", f"Ok((unsafe {{ ios::OK_N }}, {ADDR}))", "(usize, SocketAddr)", "v.0 == unsafe { ios::OK_N } && v.1.port() == 80"),
 "udpsend": ("std::net::UdpSocket::send_to", "fn sys_stub<A: std::net::ToSocketAddrs>(_s: &std::net::UdpSocket, _b: &[u8], _a: A) -> io::Result<usize>", "libc::EAGAIN", "Ok(unsafe { ios::OK_N })", "usize", "*v == unsafe { ios::OK_N }"),
 "uxaccept": ("std::os::unix::net::UnixListener::accept", "fn sys_stub(_s: &std::os::unix::net::UnixListener) -> io::Result<(std::os::unix::net::UnixStream, std::os::unix::net::SocketAddr)>", "libc::EAGAIN", None, "(UnixStream, std::os::unix::net::SocketAddr)", "false"),
 "uxrecv": ("std::os::unix::net::UnixDatagram::recv_from", "fn sys_stub(_s: &std::os::unix::net::UnixDatagram, _b: &mut [u8]) -> io::Result<(usize, std::os::unix::net::SocketAddr)>", "libc::EAGAIN", None, "(usize, std::os::unix::net::SocketAddr)", "false"),
 "uxsend": ("std::os::unix::net::UnixDatagram::send_to", "fn sys_stub<P: AsRef<std::path::Path>>(_s: &std::os::unix::net::UnixDatagram, _b: &[u8], _p: P) -> io::Result<usize>", "libc::EAGAIN", "Ok(unsafe { ios::OK_N })", "usize", "*v == unsafe { ios::OK_N }"),
 "uxconnect": ("socket2::Socket::connect", "fn sys_stub(_s: &Socket, _a: &socket2::SockAddr) -> io::Result<()>", "libc::EINPROGRESS", None, "UnixStream", "false"),
}
def gen_done(name, ty, what):
    if name not in SYS:
        return ""
    target, sig, wb, ok, rty, chk = SYS[name]
    tname = ty.split("<")[0]
    if name == "peek":
        body = """    match ios::syscall_step() {
        0 => Err(nix::errno::Errno::EAGAIN),
        1 => Ok(unsafe { ios::OK_N }),
        _ => Err(nix::errno::Errno::ECONNRESET),
    }"""
        ok_allowed = True
    else:
        body = sys_body(wb, ok)
        ok_allowed = ok is not None
    # every dropped std::io::Error drags the bit-packed Repr decoding (int -> pointer -> int) and the Box<dyn Error> drop glue
    # into the verification condition: 600 s time-outs / 14 GB. Only the operations that compare the nix Errno are in reach.
    tierline = ""
    okn = "five concrete kernel scripts (error at once; would-block then error with / without a readiness edge after the failed attempt; two would-blocks; a pending result)" + (" plus would-block then success and success at once" if ok_allowed else "; the success path, which builds a new socket object, is NOT under contract")
    head_txt = f"""
{sig} {{
{body}
}}
fn call_done(s: &mut {ty}) -> io::Result<{rty}> {{
    s.done()
}}
#[allow(unused_variables)]
fn check_ok(v: &{rty}) -> bool {{
    {chk}
}}

"""
    out = head_txt
    scen = [(0, "would-block, then a fatal error, no readiness edge: the caller suspends exactly once and returns that OS error"),
            (1, "would-block with a readiness edge right after the failed attempt: the caller retries WITHOUT suspending"),
            (2, "a pending time-out / cancel result: returned before any syscall")]
    if ok_allowed:
        scen.append((3, "would-block, then success: the kernel's result is returned verbatim"))
    for n, txt in scen:
        out += f"""
//@ obligation: C17.6{name}.e{n}
//@ property: C17
//@ kind: K3
//@ complete: no
//@ bound: one concrete kernel script per obligation (stale readiness flag on entry){"" if ok_allowed else "; the success path, which builds a new socket object, is NOT under contract"}
//@ functions: {tname}::done, co_io_result (coroutine branch)
//@ statement: caller side of {what} in coroutine context, script [{txt}]: the readiness flag is cleared before every syscall; after
//@ statement: would-block the flag is re-checked and the caller suspends only with the flag clear; the final kernel result is returned verbatim
#[kani::proof]
#[kani::stub(crate::scheduler::get_scheduler, sup::get_scheduler_stub)]
#[kani::stub(<crate::park::Park as std::ops::Drop>::drop, sup::park_drop_noop)]
#[kani::stub({target}, sys_stub)]
#[kani::stub(crate::io::sys::co_io_result, ios::co_io_result_coroutine_branch)]
#[kani::stub(crate::yield_now::yield_with_io, ios::yield_stub)]
#[kani::unwind(4)]
fn c17_6{name}_e{n}() {{
    ios::done_scenario_n::<{ty}, {rty}, {n}, _, _, _>(mk, call_done, check_ok);
}}
"""
    return out

STUBS = """#[kani::proof]
#[kani::stub(crate::scheduler::get_scheduler, sup::get_scheduler_stub)]
#[kani::stub(crate::scheduler::Scheduler::schedule, sup::schedule_stub)]
#[kani::stub(crate::scheduler::Scheduler::get_selector, ios::get_selector_stub)]
#[kani::stub(crate::io::sys::Selector::add_io_timer, ios::add_io_timer_stub)]
#[kani::stub(crate::coroutine_impl::run_coroutine, sup::run_coroutine_stub)]
#[kani::stub(<crate::park::Park as std::ops::Drop>::drop, sup::park_drop_noop)]
#[kani::stub(crate::yield_now::set_co_para, sup::set_co_para_kind_only)]
"""
def gen(name, file, ty, ctor, cancellable, timer, what):
    tname = ty.split("<")[0]
    t_ready = {"opt": 1, "never": 2, "always": 1}[timer]
    t_idle = {"opt": 0, "never": 2, "always": 1}[timer]
    out = f"""//! GENERATED by tools/gen_io_ops.py — do not edit. C17 / C18: worker side (`subscribe`) of {what}, the real
//! `impl EventSource for {tname}`, against the generic obligations of iosup.rs. Child module of `io/sys/unix/net/{file}.rs`.
//@ file-needs: cz iosup
//@ file-inject: src/io/sys/unix/net/{file}.rs
//@ file-modpath: io::sys::net::{file}
//@ file-property: C17
#![allow(unused_imports)]
use super::*;
use crate::coroutine_impl::vk_support as sup;
use crate::io::sys::vk_iosup as ios;
use crate::io::sys::IoData;
use std::net::SocketAddr;
use std::time::Duration;

#[allow(unused_variables)]
fn mk(io: &'static IoData, timed: bool) -> {ty} {{
    {ctor}
}}

//@ obligation: C17.6{name}.a
//@ property: C17 C18
//@ kind: K3
//@ complete: yes
//@ functions: {tname}::subscribe, EventData::fast_schedule
//@ statement: worker side of {what}, pre-state [readiness edge arrived after the caller's last check]: subscribe publishes the coroutine, re-checks
//@ statement: the flag and resumes the coroutine itself exactly once; a timer is armed iff the operation has a time-out, and before the coroutine is published
{STUBS}#[kani::unwind(3)]
fn c17_6{name}_a() {{
    ios::subscribe_from::<{ty}, true, false, {t_ready}, _>(mk);
}}

//@ obligation: C17.6{name}.c
//@ property: C17
//@ kind: K3
//@ complete: yes
//@ functions: {tname}::subscribe
//@ statement: worker side of {what}, pre-state [nothing pending]: the coroutine stays published in the I/O slot for the selector and nothing is scheduled
{STUBS}#[kani::unwind(3)]
fn c17_6{name}_c() {{
    ios::subscribe_from::<{ty}, false, false, {t_idle}, _>(mk);
}}

//@ obligation: C17.6{name}.d
//@ property: C17
//@ kind: K3
//@ complete: yes
//@ functions: {tname}::subscribe
//@ statement: ordering inside subscribe of {what}: the coroutine is published in the I/O slot BEFORE the readiness flag is re-read, and it is re-read at all
{STUBS}#[kani::stub(std::sync::atomic::Atomic::<usize>::load, ios::flag_load_checks_publication)]
#[kani::unwind(3)]
fn c17_6{name}_d() {{
    ios::subscribe_order::<{ty}, _>(mk);
}}
"""
    if cancellable:
        out += f"""
//@ obligation: C17.6{name}.b
//@ property: C18 C09
//@ kind: K3
//@ complete: yes
//@ functions: {tname}::subscribe, CancelImpl::set_io, CancelImpl::cancel, CancelIoImpl::cancel
//@ statement: worker side of {what}, pre-state [the coroutine was cancelled before the worker subscribes]: subscribe registers the I/O data with the Cancel
//@ statement: object, re-checks the cancel bit and the coroutine is taken out of the I/O slot and rescheduled exactly once
{STUBS}#[kani::unwind(3)]
fn c17_6{name}_b() {{
    ios::subscribe_from::<{ty}, false, true, {t_idle}, _>(mk);
}}
"""
    return out + gen_done(name, ty, what)
for op in OPS:
    open(os.path.join(VERIF, "kani", "may", f"c17_op_{op[0]}.rs"), "w").write(gen(*op))
print("generated", len(OPS))
