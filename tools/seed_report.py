#!/usr/bin/env python3
"""print the seeded-change table from seeded/*/meta.json (markdown)"""
import json, glob, os
rows = []
for f in sorted(glob.glob(os.path.join(os.path.dirname(os.path.dirname(os.path.abspath(__file__))), "seeded", "*", "meta.json"))):
    m = json.load(open(f))
    rows.append(f"| {m['id']} | {m['breaks_property']} | {m['what_it_is_and_what_it_needs_to_manifest']} | {m['caught_by']} | {m['status']} |")
print("| seed | property | change / what it needs | caught by | status |\n|---|---|---|---|---|")
print("\n".join(rows))
