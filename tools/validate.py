#!/usr/bin/env python3
"""validate MANIFEST.json and evidence/*.json against the given schemas (run with python3-vt)"""
import json, glob, sys, jsonschema
ok = True
def v(f, s):
    global ok
    try:
        jsonschema.validate(json.load(open(f)), json.load(open(s)))
        print("valid", f)
    except Exception as e:
        ok = False
        print("INVALID", f, str(e)[:300])
v('/verif/MANIFEST.json', '/root/.vp/MANIFEST.schema.json')
for f in sorted(glob.glob('/verif/evidence/*.json')):
    v(f, '/root/.vp/EVIDENCE.schema.json')
sys.exit(0 if ok else 1)
