#!/bin/sh
# dev helper: run every property's check sequentially, print rc and wall time
tier=${1:-quick}
cd "$(dirname "$0")/.."
for i in 01 02 03 04 05 06 07 08 09 10 11 12 13 14 15 16 17 18 19; do
  s=$(date +%s)
  ./check C$i $tier > .cache/logs/all_C$i.$tier.out 2>&1
  rc=$?
  e=$(date +%s)
  echo "C$i rc=$rc $((e-s))s $(grep -E 'HELD|UNDECIDED|VIOLATION|KNOWN-FINDING' .cache/logs/all_C$i.$tier.out | head -3 | cut -c1-160 | tr '\n' '|')"
done
