#!/bin/sh
# usage: runh.sh <scratchdir> <crate> <harness> [extra kani args]   (dev helper)
cd "$1" || exit 2; shift
P=""; [ "$1" = may_queue ] && P="-p may_queue"; shift
H="$1"; shift
CARGO_NET_OFFLINE=true cargo kani -Z unstable-options --ignore-global-asm -Z stubbing -Z function-contracts $P --harness "$H" "$@" 2>&1
