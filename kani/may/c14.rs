//! C14 — a scope is never left while one of its coroutines is running: the scoped join. Child module of `scoped.rs`.
//! `JoinHandle::join` is replaced by its contract (C01: returns only when the coroutine has finished).
//@ file-needs: cz jn
//@ file-inject: src/scoped.rs
//@ file-property: C14
use super::*;
use crate::coroutine_impl::vk_support as sup;
use crate::join::make_join_handle;
use std::any::Any;

static mut JOINS: usize = 0;
static mut CANCEL_DISABLED_AT_JOIN: bool = false;
static mut JOIN_RESULT_IS_ERR: bool = false;
static mut RESUME_UNWINDS: usize = 0;
static mut STATE_AT_UNWIND: usize = 0;
static mut PANICKING_NOW: bool = false;
static mut IN_CO: bool = false;

fn panicking_stub() -> bool {
    unsafe { PANICKING_NOW }
}

/// contract of JoinHandle::join (C01.1a/C01.5a): it returns only after the coroutine finished. While it waits the
/// owner may be cancelled — which must not be able to abort the wait: the cancel has to be disabled here.
fn join_contract<T>(h: crate::join::JoinHandle<T>) -> std::thread::Result<T> {
    unsafe {
        JOINS += 1;
        if IN_CO {
            let c = crate::coroutine_impl::current_cancel_data();
            CANCEL_DISABLED_AT_JOIN = c.is_disabled();
        }
    }
    std::mem::forget(h);
    if unsafe { JOIN_RESULT_IS_ERR } {
        Err(Box::new(17u8))
    } else {
        // T = () for scoped coroutines
        Ok(unsafe { std::mem::transmute_copy::<(), T>(&()) })
    }
}

/// `res.unwrap_or_else(|e| panic::resume_unwind(e))` observed at the `unwrap_or_else`: `std::panic::resume_unwind` itself
/// cannot be named in a Kani stub (`std::panic` resolves to the macro). For Err the closure re-raises the child's panic.
fn unwrap_or_else_observed<T, E, F: FnOnce(E) -> T>(r: Result<T, E>, _op: F) -> T {
    match r {
        Ok(t) => t,
        Err(e) => {
            unsafe {
                RESUME_UNWINDS += 1;
                if IN_CO {
                    STATE_AT_UNWIND = crate::coroutine_impl::current_cancel_data().vk_state();
                }
            }
            assert!(!unsafe { PANICKING_NOW }, "[C14.3-no-double-panic] the child's panic is re-raised while the owner is already unwinding (abort)");
            if unsafe { IN_CO } {
                assert!(unsafe { STATE_AT_UNWIND } == unsafe { STATE0 }, "[C14.3-cancel-restored-before-unwind] the owner re-raises the child's panic without having restored its cancel state");
            }
            std::mem::forget(e);
            kani::assume(false);
            loop {}
        }
    }
}
static mut STATE0: usize = 0;

fn scoped_join_is_not_cancellable<const IN_CO_C: bool, const ERR: bool, const PANICKING: bool>() {
    let in_co: bool = IN_CO_C;
    let mut state0 = 0;
    let owner = if in_co { Some(sup::enter_coroutine()) } else { None };
    if let Some(o) = owner {
        // the owner may already be cancelled and/or have cancel disabled by an outer scope
        if kani::any() {
            sup::cancel_of(o).vk_set_cancel_bit();
        }
        if kani::any() {
            sup::cancel_of(o).disable_cancel();
        }
        state0 = sup::cancel_of(o).vk_state();
    }
    unsafe { STATE0 = state0 };
    unsafe {
        JOINS = 0;
        RESUME_UNWINDS = 0;
        CANCEL_DISABLED_AT_JOIN = false;
        IN_CO = in_co;
        JOIN_RESULT_IS_ERR = ERR;
        PANICKING_NOW = PANICKING;
        // the re-raise of a child's panic into a non-unwinding owner ends in std::panic::resume_unwind, which can neither be
        // executed nor stubbed under Kani (`std::panic` resolves to the macro): that combination is excluded here and the
        // propagation itself is NOT decided
        kani::assume(!JOIN_RESULT_IS_ERR || PANICKING_NOW);
    }
    let (co, handle, join) = sup::mk_suspended_coroutine();
    std::mem::forget(co);
    let packet = std::sync::Arc::new(AtomicOption::none());
    let panic = std::sync::Arc::new(AtomicOption::none());
    let jh: JoinHandle<()> = make_join_handle(handle, join, packet, panic);
    let mut st = JoinState::Running(jh);
    st.join();
    // returned normally
    assert!(unsafe { JOINS } == 1, "[C14.3-joined-once] the scoped join joins its child exactly once");
    if in_co {
        assert!(unsafe { CANCEL_DISABLED_AT_JOIN }, "[C14.3-join-not-cancellable] the owner waits for its scoped child with cancellation enabled: a cancel would make it leave the scope while the child still uses the owner's frame");
        assert!(sup::cancel_of(owner.unwrap()).vk_state() == state0, "[C14.3-cancel-restored] the owner's cancel state is restored after the scoped join");
    }
    assert!(matches!(st, JoinState::Joined), "[C14.3-state-joined] after the join the state is Joined");
    st.join();
    assert!(unsafe { JOINS } == 1, "[C14.3-joined-once] the scoped join joins its child exactly once");
    sup::leave_coroutine();
}


//@ obligation: C14.3.0
//@ property: C14 C13
//@ kind: K3
//@ complete: yes
//@ functions: scoped::JoinState::join
//@ statement: variant [coroutine owner, child ok, owner not unwinding]: the scoped join (what scope()/join!/Drop for Scope run for every child), in thread and coroutine context, child ok or panicked, owner
//@ statement: unwinding or not: the child is joined exactly once (a second call joins nobody); in coroutine context the owner's cancel is DISABLED
//@ statement: while it waits for the child — so a cancellation cannot make it leave the scope early — and restored afterwards; a child's panic is not re-raised into an owner that is already
//@ statement: unwinding (the re-raise into a non-unwinding owner ends in resume_unwind, which Kani cannot execute: not decided)
#[kani::proof]
#[kani::stub(crate::scheduler::get_scheduler, sup::get_scheduler_stub)]
#[kani::stub(<crate::park::Park as std::ops::Drop>::drop, sup::park_drop_noop)]
#[kani::stub(crate::join::JoinHandle::join, join_contract)]
#[kani::stub(std::thread::panicking, panicking_stub)]
#[kani::unwind(9)]
fn c14_3_0() {
    scoped_join_is_not_cancellable::<true, false, false>();
}

//@ obligation: C14.3.1
//@ property: C14 C13
//@ kind: K3
//@ complete: yes
//@ functions: scoped::JoinState::join
//@ statement: variant [coroutine owner, child ok, owner unwinding]: the scoped join (what scope()/join!/Drop for Scope run for every child), in thread and coroutine context, child ok or panicked, owner
//@ statement: unwinding or not: the child is joined exactly once (a second call joins nobody); in coroutine context the owner's cancel is DISABLED
//@ statement: while it waits for the child — so a cancellation cannot make it leave the scope early — and restored afterwards; a child's panic is not re-raised into an owner that is already
//@ statement: unwinding (the re-raise into a non-unwinding owner ends in resume_unwind, which Kani cannot execute: not decided)
#[kani::proof]
#[kani::stub(crate::scheduler::get_scheduler, sup::get_scheduler_stub)]
#[kani::stub(<crate::park::Park as std::ops::Drop>::drop, sup::park_drop_noop)]
#[kani::stub(crate::join::JoinHandle::join, join_contract)]
#[kani::stub(std::thread::panicking, panicking_stub)]
#[kani::unwind(9)]
fn c14_3_1() {
    scoped_join_is_not_cancellable::<true, false, true>();
}

//@ obligation: C14.3.2
//@ property: C14 C13
//@ kind: K3
//@ complete: yes
//@ functions: scoped::JoinState::join
//@ statement: variant [coroutine owner, child panicked, owner unwinding]: the scoped join (what scope()/join!/Drop for Scope run for every child), in thread and coroutine context, child ok or panicked, owner
//@ statement: unwinding or not: the child is joined exactly once (a second call joins nobody); in coroutine context the owner's cancel is DISABLED
//@ statement: while it waits for the child — so a cancellation cannot make it leave the scope early — and restored afterwards; a child's panic is not re-raised into an owner that is already
//@ statement: unwinding (the re-raise into a non-unwinding owner ends in resume_unwind, which Kani cannot execute: not decided)
#[kani::proof]
#[kani::stub(crate::scheduler::get_scheduler, sup::get_scheduler_stub)]
#[kani::stub(<crate::park::Park as std::ops::Drop>::drop, sup::park_drop_noop)]
#[kani::stub(crate::join::JoinHandle::join, join_contract)]
#[kani::stub(std::thread::panicking, panicking_stub)]
#[kani::unwind(9)]
fn c14_3_2() {
    scoped_join_is_not_cancellable::<true, true, true>();
}

//@ obligation: C14.3.3
//@ property: C14 C13
//@ kind: K3
//@ complete: yes
//@ functions: scoped::JoinState::join
//@ statement: variant [thread owner, child ok, owner not unwinding]: the scoped join (what scope()/join!/Drop for Scope run for every child), in thread and coroutine context, child ok or panicked, owner
//@ statement: unwinding or not: the child is joined exactly once (a second call joins nobody); in coroutine context the owner's cancel is DISABLED
//@ statement: while it waits for the child — so a cancellation cannot make it leave the scope early — and restored afterwards; a child's panic is not re-raised into an owner that is already
//@ statement: unwinding (the re-raise into a non-unwinding owner ends in resume_unwind, which Kani cannot execute: not decided)
#[kani::proof]
#[kani::stub(crate::scheduler::get_scheduler, sup::get_scheduler_stub)]
#[kani::stub(<crate::park::Park as std::ops::Drop>::drop, sup::park_drop_noop)]
#[kani::stub(crate::join::JoinHandle::join, join_contract)]
#[kani::stub(std::thread::panicking, panicking_stub)]
#[kani::unwind(9)]
fn c14_3_3() {
    scoped_join_is_not_cancellable::<false, false, false>();
}

//@ obligation: C14.3.4
//@ property: C14 C13
//@ kind: K3
//@ complete: yes
//@ functions: scoped::JoinState::join
//@ statement: variant [thread owner, child ok, owner unwinding]: the scoped join (what scope()/join!/Drop for Scope run for every child), in thread and coroutine context, child ok or panicked, owner
//@ statement: unwinding or not: the child is joined exactly once (a second call joins nobody); in coroutine context the owner's cancel is DISABLED
//@ statement: while it waits for the child — so a cancellation cannot make it leave the scope early — and restored afterwards; a child's panic is not re-raised into an owner that is already
//@ statement: unwinding (the re-raise into a non-unwinding owner ends in resume_unwind, which Kani cannot execute: not decided)
#[kani::proof]
#[kani::stub(crate::scheduler::get_scheduler, sup::get_scheduler_stub)]
#[kani::stub(<crate::park::Park as std::ops::Drop>::drop, sup::park_drop_noop)]
#[kani::stub(crate::join::JoinHandle::join, join_contract)]
#[kani::stub(std::thread::panicking, panicking_stub)]
#[kani::unwind(9)]
fn c14_3_4() {
    scoped_join_is_not_cancellable::<false, false, true>();
}

//@ obligation: C14.3.5
//@ property: C14 C13
//@ kind: K3
//@ complete: yes
//@ functions: scoped::JoinState::join
//@ statement: variant [thread owner, child panicked, owner unwinding]: the scoped join (what scope()/join!/Drop for Scope run for every child), in thread and coroutine context, child ok or panicked, owner
//@ statement: unwinding or not: the child is joined exactly once (a second call joins nobody); in coroutine context the owner's cancel is DISABLED
//@ statement: while it waits for the child — so a cancellation cannot make it leave the scope early — and restored afterwards; a child's panic is not re-raised into an owner that is already
//@ statement: unwinding (the re-raise into a non-unwinding owner ends in resume_unwind, which Kani cannot execute: not decided)
#[kani::proof]
#[kani::stub(crate::scheduler::get_scheduler, sup::get_scheduler_stub)]
#[kani::stub(<crate::park::Park as std::ops::Drop>::drop, sup::park_drop_noop)]
#[kani::stub(crate::join::JoinHandle::join, join_contract)]
#[kani::stub(std::thread::panicking, panicking_stub)]
#[kani::unwind(9)]
fn c14_3_5() {
    scoped_join_is_not_cancellable::<false, true, true>();
}

static mut ORDER: [u8; 3] = [0; 3];
static mut RAN: usize = 0;
static mut SCOPE_PTR: *const u8 = std::ptr::null();

/// number of deferred destructors still linked in the scope
fn chain_len(scope: &Scope<'_>) -> usize {
    let d = scope.dtors.borrow();
    let mut n = 0;
    let mut cur = d.as_ref();
    let mut i = 0;
    while i < 4 {
        match cur {
            Some(node) => {
                n += 1;
                cur = node.next.as_deref();
            }
            None => {}
        }
        i += 1;
    }
    n
}

fn dtor_body(tag: u8) {
    unsafe {
        // a scoped join may unwind (it re-raises the child's panic); Drop for Scope then has to find every destructor that
        // has not run yet still linked in the scope
        let scope = &*(SCOPE_PTR as *const Scope<'static>);
        assert!(chain_len(scope) == 2 - RAN, "[C14.2-transactional] while a deferred join runs, the joins that have not run yet must already be linked back into the scope: if this one unwinds, Drop for Scope would skip them and leave the scope with children running");
        ORDER[RAN] = tag;
        RAN += 1;
    }
}

//@ obligation: C14.2a
//@ property: C14 C13
//@ kind: K2
//@ complete: no
//@ bound: three deferred destructors
//@ functions: Scope::defer, Scope::drop_all, Scope::drop
//@ statement: Scope::drop_all runs every deferred destructor (the scoped joins) exactly once, newest first; while one of them runs, all the ones
//@ statement: that have not run yet are linked in the scope (so that the repeat pass made by Drop for Scope during an unwind joins them); a second
//@ statement: pass finds nothing left
#[kani::proof]
#[kani::stub(crate::scheduler::get_scheduler, sup::get_scheduler_stub)]
#[kani::stub(<crate::park::Park as std::ops::Drop>::drop, sup::park_drop_noop)]
#[kani::unwind(6)]
fn c14_2a_drop_all_runs_each_dtor_once() {
    unsafe {
        RAN = 0;
        ORDER = [0; 3];
    }
    let mut scope = Scope { dtors: RefCell::new(None) };
    unsafe { SCOPE_PTR = &scope as *const Scope<'_> as *const u8 };
    scope.defer(|| dtor_body(1));
    scope.defer(|| dtor_body(2));
    scope.defer(|| dtor_body(3));
    assert!(chain_len(&scope) == 3, "[C14.2-deferred] every spawn defers one join");
    scope.drop_all();
    assert!(unsafe { RAN } == 3, "[C14.2-all-run] every deferred destructor (scoped join) runs");
    assert!(unsafe { ORDER } == [3, 2, 1], "[C14.2-lifo] deferred destructors run newest first");
    scope.drop_all();
    drop(scope);
    assert!(unsafe { RAN } == 3, "[C14.2-once] no deferred destructor runs twice (Drop for Scope repeats drop_all)");
}

static mut RAN_AT_RETURN_OF_F: usize = 0;
fn dtor_plain(tag: u8) {
    unsafe {
        if RAN < 3 {
            ORDER[RAN] = tag;
        }
        RAN += 1;
    }
}

//@ obligation: C14.4a
//@ property: C14
//@ kind: K2
//@ complete: no
//@ bound: two deferred destructors
//@ functions: scope, Scope::defer, Scope::drop_all
//@ statement: coroutine::scope runs the user closure, then every destructor the closure deferred (the scoped joins) — all of them have run when scope
//@ statement: returns, none ran before the closure returned — and passes the closure's value through
#[kani::proof]
#[kani::stub(crate::scheduler::get_scheduler, sup::get_scheduler_stub)]
#[kani::stub(<crate::park::Park as std::ops::Drop>::drop, sup::park_drop_noop)]
#[kani::unwind(5)]
fn c14_4a_scope_runs_the_deferred_joins_before_returning() {
    unsafe {
        RAN = 0;
        ORDER = [0; 3];
        RAN_AT_RETURN_OF_F = usize::MAX;
    }
    let v: u32 = kani::any();
    let r = scope(|s| {
        s.defer(|| dtor_plain(1));
        s.defer(|| dtor_plain(2));
        unsafe { RAN_AT_RETURN_OF_F = RAN };
        v
    });
    assert!(unsafe { RAN_AT_RETURN_OF_F } == 0, "[C14.4-joins-after-body] a deferred join ran while the scope body was still running");
    assert!(unsafe { RAN } == 2, "[C14.4-joined-at-return] scope returned although a deferred join (a scoped coroutine) has not been run");
    assert!(r == v, "[C14.4-value] scope passes the closure's value through");
}

static mut SPAWNS: usize = 0;
static mut SPAWNED_JOIN: *const crate::join::Join = std::ptr::null();
/// contract of `spawn_unsafe_builder` (C01): a coroutine is created and scheduled, the JoinHandle refers to it. The body
/// `f` is not run here (it runs on a worker; whether it runs is C01's business, the scope only owns the handle).
unsafe fn spawn_contract<'a, F>(f: F, _b: Builder) -> JoinHandle<()>
where
    F: FnOnce() + Send + 'a,
{
    std::mem::forget(f);
    SPAWNS += 1;
    let (co, handle, join) = sup::mk_suspended_coroutine();
    std::mem::forget(co);
    SPAWNED_JOIN = std::sync::Arc::as_ptr(&join);
    let packet = std::sync::Arc::new(AtomicOption::none());
    let panic = std::sync::Arc::new(AtomicOption::none());
    make_join_handle(handle, join, packet, panic)
}

static mut JOINED: *const crate::join::Join = std::ptr::null();
fn join_records<T>(h: crate::join::JoinHandle<T>) -> std::thread::Result<T> {
    unsafe {
        JOINS += 1;
        JOINED = h.vk_join_ptr();
    }
    std::mem::forget(h);
    Ok(unsafe { std::mem::transmute_copy::<(), T>(&()) })
}

//@ obligation: C14.4b
//@ property: C14
//@ kind: K3
//@ complete: yes
//@ functions: Scope::spawn_impl, Scope::spawn, Scope::defer, Scope::drop_all, JoinState::join
//@ statement: a scoped spawn creates exactly one coroutine and defers exactly one destructor in the scope; running the scope's destructors joins exactly
//@ statement: that coroutine, once (spawn_unsafe_builder and JoinHandle::join replaced by their contracts); a ScopedJoinHandle that is dropped without
//@ statement: join() does not take the deferred join away
#[kani::proof]
#[kani::stub(crate::scheduler::get_scheduler, sup::get_scheduler_stub)]
#[kani::stub(<crate::park::Park as std::ops::Drop>::drop, sup::park_drop_noop)]
#[kani::stub(crate::scoped::spawn_unsafe_builder, spawn_contract)]
#[kani::stub(crate::join::JoinHandle::join, join_records)]
#[kani::stub(std::thread::panicking, panicking_stub)]
#[kani::unwind(9)]
fn c14_4b_scoped_spawn_defers_the_join_of_its_child() {
    unsafe {
        SPAWNS = 0;
        JOINS = 0;
        IN_CO = false;
        PANICKING_NOW = false;
        JOINED = std::ptr::null();
    }
    let mut scope = Scope { dtors: RefCell::new(None) };
    let h = unsafe { scope.spawn(|| 5u8) };
    assert!(unsafe { SPAWNS } == 1, "[C14.4-one-coroutine] a scoped spawn creates exactly one coroutine");
    assert!(chain_len(&scope) == 1, "[C14.4-join-deferred] a scoped spawn must defer the join of its child in the scope: without it the scope is left while the child runs");
    assert!(unsafe { JOINS } == 0, "[C14.4-not-joined-yet] spawn does not wait for the child");
    // the user drops the handle without joining
    std::mem::forget(h.packet.clone());
    drop(h);
    assert!(chain_len(&scope) == 1 && unsafe { JOINS } == 0, "[C14.4-handle-drop-keeps-join] dropping a ScopedJoinHandle must not remove or run the deferred join");
    scope.drop_all();
    assert!(unsafe { JOINS } == 1 && unsafe { JOINED } == unsafe { SPAWNED_JOIN }, "[C14.4-joins-its-child] the deferred destructor joins exactly the coroutine that was spawned, once");
    std::mem::forget(scope);
}

//@ obligation: C14.4c
//@ property: C14
//@ kind: K3
//@ complete: yes
//@ functions: ScopedJoinHandle::join, JoinState::join, Scope::drop_all
//@ statement: ScopedJoinHandle::join waits for the child (exactly one join of exactly that coroutine) BEFORE it takes the result, returns the value the child
//@ statement: stored, and the scope's deferred destructor afterwards does not join a second time
#[kani::proof]
#[kani::stub(crate::scheduler::get_scheduler, sup::get_scheduler_stub)]
#[kani::stub(<crate::park::Park as std::ops::Drop>::drop, sup::park_drop_noop)]
#[kani::stub(crate::scoped::spawn_unsafe_builder, spawn_contract)]
#[kani::stub(crate::join::JoinHandle::join, join_stores_the_result)]
#[kani::stub(std::thread::panicking, panicking_stub)]
#[kani::unwind(9)]
fn c14_4c_scoped_join_returns_the_result_once() {
    unsafe {
        SPAWNS = 0;
        JOINS = 0;
        IN_CO = false;
        PANICKING_NOW = false;
        JOINED = std::ptr::null();
        RESULT = kani::any();
    }
    let mut scope = Scope { dtors: RefCell::new(None) };
    let h = unsafe { scope.spawn(|| 0u8) };
    unsafe { RESULT_SLOT = std::sync::Arc::as_ptr(&h.packet) };
    std::mem::forget(h.packet.clone());
    let v = h.join();
    assert!(unsafe { JOINS } == 1 && unsafe { JOINED } == unsafe { SPAWNED_JOIN }, "[C14.4-join-waits] ScopedJoinHandle::join waits for exactly its child, once");
    assert!(v == unsafe { RESULT }, "[C14.4-result] the value returned is the one the child stored (it is read only after the child has finished)");
    scope.drop_all();
    assert!(unsafe { JOINS } == 1, "[C14.4-not-joined-twice] a child that was joined through its handle is not joined again at scope exit");
    std::mem::forget(scope);
}

static mut RESULT: u8 = 0;
static mut RESULT_SLOT: *const AtomicOption<u8> = std::ptr::null();
/// contract of `JoinHandle::join` (C01): returns only after the child has finished — which is when the child's closure
/// has stored its result. Reading the result slot before this point finds it empty.
fn join_stores_the_result<T>(h: crate::join::JoinHandle<T>) -> std::thread::Result<T> {
    unsafe {
        JOINS += 1;
        JOINED = h.vk_join_ptr();
        if !RESULT_SLOT.is_null() {
            (*RESULT_SLOT).store(RESULT);
        }
    }
    std::mem::forget(h);
    Ok(unsafe { std::mem::transmute_copy::<(), T>(&()) })
}
