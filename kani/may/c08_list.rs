//! C08 — the timer thread's side of "never early": `IntervalEntry::pop_timeout` fires exactly the entries whose
//! expiry time has been reached, in order, and reports the next expiry; the heap order of `IntervalEntry` puts the
//! EARLIEST expiry on top (BinaryHeap is a max-heap, so the comparison is reversed). Child module of
//! `timeout_list.rs`. The removable list is the real `mpsc_list_v1` (its own contracts: C19).
//@ file-inject: src/timeout_list.rs
//@ file-property: C08
use super::*;

static mut FIRED: [usize; 3] = [0; 3];
static mut FIRED_N: usize = 0;

fn fire(data: usize) {
    unsafe {
        if FIRED_N < 3 {
            FIRED[FIRED_N] = data;
        }
        FIRED_N += 1;
    }
}

//@ obligation: C08.3a
//@ property: C08 C18
//@ kind: K2
//@ complete: no
//@ bound: one interval list holding two entries (every pair of expiry times t1 <= t2, every clock value)
//@ functions: IntervalEntry::pop_timeout
//@ playback: yes
//@ statement: pop_timeout(now) never calls the handler for an entry whose expiry time is after now (no early fire), calls it for every entry whose expiry time is
//@ statement: before now (no missed timer; an entry expiring exactly now may go either way), in list order, each once, and returns the expiry time of the first entry left
#[kani::proof]
#[kani::unwind(4)]
fn c08_3a_pop_timeout_fires_exactly_the_expired() {
    let t1: u64 = kani::any();
    let t2: u64 = kani::any();
    let now: u64 = kani::any();
    kani::assume(t1 <= t2);
    let list: IntervalList<usize> = Arc::new(TimeoutQueueWrapper::new());
    let (h1, _) = list.inner.push(TimeoutData { time: t1, data: 11 });
    let (h2, _) = list.inner.push(TimeoutData { time: t2, data: 22 });
    std::mem::forget(h1);
    std::mem::forget(h2);
    unsafe { FIRED_N = 0 };
    let entry = IntervalEntry { time: t1, list, interval: 5 };
    let next = entry.pop_timeout(now, &fire);
    // entries whose expiry time has been reached / has been passed (an entry that expires exactly now may go either way)
    let reached = if t2 <= now {
        2
    } else if t1 <= now {
        1
    } else {
        0
    };
    let passed = if t2 < now {
        2
    } else if t1 < now {
        1
    } else {
        0
    };
    let fired = unsafe { FIRED_N };
    unsafe {
        assert!(fired <= reached, "[C08.3-never-early] a timer fires although its expiry time has not been reached");
        assert!(fired >= passed, "[C08.3-no-missed-timer] an expired timer is left in the list: it fires only when something else wakes the timer thread");
        assert!(fired < 1 || FIRED[0] == 11, "[C08.3-order] expired timers fire in list order, each once");
        assert!(fired < 2 || FIRED[1] == 22, "[C08.3-order] expired timers fire in list order, each once");
    }
    let expected_next = if fired == 2 {
        None
    } else if fired == 1 {
        Some(t2)
    } else {
        Some(t1)
    };
    assert!(next == expected_next, "[C08.3-next-expiry] pop_timeout reports the expiry time of the first entry left: the timer thread sleeps exactly until then");
    std::mem::forget(entry);
}

//@ obligation: C08.3b
//@ property: C08 C18
//@ kind: K1
//@ complete: yes
//@ functions: <IntervalEntry as Ord>::cmp, PartialOrd::partial_cmp, PartialEq::eq
//@ playback: yes
//@ statement: heap order of the interval lists, for every pair of expiry times: the entry that expires EARLIER compares greater (the max-heap's top is the next
//@ statement: timer to fire, so a pending later timer never delays an earlier one); partial_cmp and eq agree with cmp
#[kani::proof]
#[kani::unwind(3)]
fn c08_3b_heap_order_earliest_on_top() {
    let ta: u64 = kani::any();
    let tb: u64 = kani::any();
    let la: IntervalList<usize> = Arc::new(TimeoutQueueWrapper::new());
    let lb: IntervalList<usize> = Arc::new(TimeoutQueueWrapper::new());
    let a = IntervalEntry { time: ta, list: la, interval: kani::any() };
    let b = IntervalEntry { time: tb, list: lb, interval: kani::any() };
    let c = a.cmp(&b);
    assert!((c == cmp::Ordering::Greater) == (ta < tb), "[C08.3-earliest-on-top] the heap order must put the EARLIEST expiry on top: with any other order a later timer delays an earlier one");
    assert!((c == cmp::Ordering::Equal) == (ta == tb), "[C08.3-earliest-on-top] the heap order must put the EARLIEST expiry on top: with any other order a later timer delays an earlier one");
    assert!(a.partial_cmp(&b) == Some(c) && (a == b) == (ta == tb), "[C08.3-order-consistent] partial_cmp and eq agree with cmp");
    std::mem::forget(a);
    std::mem::forget(b);
}

static mut LIST_ADDS: usize = 0;
static mut LIST_ADD_DUR: Option<Duration> = None;
static mut LIST_IS_HEAD: bool = false;
static mut THREAD_UNPARKS: usize = 0;
static mut STUB_Q: *const TimeoutQueue<TimeoutData<usize>> = std::ptr::null();

/// contract of `TimeOutList::add_timer` (C08.2v deadline; list/heap installation not under contract): the entry is in a
/// list, and the flag says whether it became the head of its list (the timer thread has to recompute its sleep)
fn list_add_timer_contract<T>(_l: &TimeOutList<T>, dur: Duration, data: T) -> (TimeoutHandle<T>, bool) {
    unsafe {
        LIST_ADDS += 1;
        LIST_ADD_DUR = Some(dur);
        let q = &*(STUB_Q as *const TimeoutQueue<TimeoutData<T>>);
        let (h, _) = q.push(TimeoutData { time: 0, data });
        (h, LIST_IS_HEAD)
    }
}
fn thread_unpark_stub(_t: &thread::Thread) {
    unsafe { THREAD_UNPARKS += 1 };
}

//@ obligation: C08.5a
//@ property: C08
//@ kind: K3
//@ complete: yes
//@ functions: TimerThread::add_timer, TimerThread::del_timer
//@ statement: TimerThread::add_timer passes a duration d' with d <= d' < d + 1ms to the list, once, and — when the new entry became the head of its list (it may be the
//@ statement: next timer to fire) — wakes the registered timer thread so that it recomputes its sleep; del_timer queues the handle for removal and wakes the
//@ statement: timer thread. Without the wake-up the timer thread sleeps until its previous deadline (or for ever) and the new timer fires late or never
#[kani::proof]
#[kani::stub(crate::timeout_list::TimeOutList::add_timer, list_add_timer_contract)]
#[kani::stub(std::thread::Thread::unpark, thread_unpark_stub)]
#[kani::stub(may_queue::mpsc::Queue::push, remove_list_push_stub)]
#[kani::unwind(3)]
fn c08_5a_timer_thread_is_woken_for_a_new_head() {
    let q: &'static TimeoutQueue<TimeoutData<usize>> = Box::leak(Box::new(TimeoutQueue::new()));
    let tt: &'static TimerThread<usize> = unsafe {
        let p = Box::into_raw(Box::<TimerThread<usize>>::new_uninit()) as *mut TimerThread<usize>;
        std::ptr::addr_of_mut!((*p).wakeup).write(AtomicOption::none());
        &*p
    };
    let registered: bool = kani::any();
    let secs: u64 = kani::any();
    let nanos: u32 = kani::any();
    kani::assume(nanos < 1_000_000_000);
    let d = Duration::new(secs, nanos);
    unsafe {
        STUB_Q = q;
        LIST_ADDS = 0;
        THREAD_UNPARKS = 0;
        REMOVE_PUSHES = 0;
        LIST_IS_HEAD = kani::any();
    }
    if registered {
        tt.wakeup.store(fake_thread_handle());
    }
    let h = tt.add_timer(d, 7);
    unsafe {
        assert!(LIST_ADDS == 1, "[C08.5-armed-once] one list entry per timer");
        let armed = LIST_ADD_DUR.unwrap();
        assert!(armed >= d, "[C08.5-never-early] the timer thread front end arms less than the caller's duration");
        match d.checked_add(Duration::from_millis(1)) {
            Some(limit) => assert!(armed < limit, "[C08.5-prompt] the timer thread front end arms a millisecond or more later than asked"),
            None => {}
        }
        let expect = if LIST_IS_HEAD && registered { 1 } else { 0 };
        assert!(THREAD_UNPARKS >= expect, "[C08.5-wake-for-new-head] a timer that became the head of its list: the sleeping timer thread must be woken to recompute its sleep, otherwise it fires late or never");
        if !registered {
            assert!(THREAD_UNPARKS == 0, "[C08.5-nobody-to-wake] with no timer thread registered nobody is woken");
        }
    }
    // removal
    if registered {
        tt.wakeup.store(fake_thread_handle());
    }
    let before = unsafe { THREAD_UNPARKS };
    tt.del_timer(h);
    unsafe {
        assert!(REMOVE_PUSHES == 1, "[C08.5-removal-queued] del_timer queues the handle for the timer thread, once");
        assert!(THREAD_UNPARKS >= before + if registered { 1 } else { 0 }, "[C08.5-wake-for-removal] the timer thread is woken to process the removal");
    }
}
static mut REMOVE_PUSHES: usize = 0;
/// an `Arc<Thread>` that is never dereferenced (`Thread::unpark` is an observation point) and never freed;
/// `thread::current()` reaches a thread-local with a destructor and with it the kani-compiler ICE on catch_unwind
fn fake_thread_handle() -> Arc<thread::Thread> {
    let a: Arc<thread::Thread> = Arc::new(unsafe { std::mem::MaybeUninit::<thread::Thread>::zeroed().assume_init() });
    std::mem::forget(a.clone());
    a
}
fn remove_list_push_stub<T>(_q: &Queue<T>, v: T) {
    unsafe { REMOVE_PUSHES += 1 };
    std::mem::forget(v);
}
