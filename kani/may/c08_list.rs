//! C08 — the timer thread's side of "never early": `IntervalEntry::pop_timeout` fires exactly the entries whose
//! expiry time has been reached, in order, and reports the next expiry; the heap order of `IntervalEntry` puts the
//! EARLIEST expiry on top (BinaryHeap is a max-heap, so the comparison is reversed). Child module of
//! `timeout_list.rs`. The removable list is the real `mpsc_list_v1` (its own contracts: C19).
//@ file-inject: src/timeout_list.rs
//@ file-property: C08
use super::*;

static mut FIRED: [usize; 3] = [0; 3];
static mut FIRED_N: usize = 0;

fn fire(data: usize) {
    unsafe {
        if FIRED_N < 3 {
            FIRED[FIRED_N] = data;
        }
        FIRED_N += 1;
    }
}

//@ obligation: C08.3a
//@ property: C08 C18
//@ kind: K2
//@ complete: no
//@ bound: one interval list holding two entries (every pair of expiry times t1 <= t2, every clock value)
//@ functions: IntervalEntry::pop_timeout
//@ playback: yes
//@ statement: pop_timeout(now) never calls the handler for an entry whose expiry time is after now (no early fire), calls it for every entry whose expiry time is
//@ statement: before now (no missed timer; an entry expiring exactly now may go either way), in list order, each once, and returns the expiry time of the first entry left
#[kani::proof]
#[kani::unwind(4)]
fn c08_3a_pop_timeout_fires_exactly_the_expired() {
    let t1: u64 = kani::any();
    let t2: u64 = kani::any();
    let now: u64 = kani::any();
    kani::assume(t1 <= t2);
    let list: IntervalList<usize> = Arc::new(TimeoutQueueWrapper::new());
    let (h1, _) = list.inner.push(TimeoutData { time: t1, data: 11 });
    let (h2, _) = list.inner.push(TimeoutData { time: t2, data: 22 });
    std::mem::forget(h1);
    std::mem::forget(h2);
    unsafe { FIRED_N = 0 };
    let entry = IntervalEntry { time: t1, list, interval: 5 };
    let next = entry.pop_timeout(now, &fire);
    // entries whose expiry time has been reached / has been passed (an entry that expires exactly now may go either way)
    let reached = if t2 <= now {
        2
    } else if t1 <= now {
        1
    } else {
        0
    };
    let passed = if t2 < now {
        2
    } else if t1 < now {
        1
    } else {
        0
    };
    let fired = unsafe { FIRED_N };
    unsafe {
        assert!(fired <= reached, "[C08.3-never-early] a timer fires although its expiry time has not been reached");
        assert!(fired >= passed, "[C08.3-no-missed-timer] an expired timer is left in the list: it fires only when something else wakes the timer thread");
        assert!(fired < 1 || FIRED[0] == 11, "[C08.3-order] expired timers fire in list order, each once");
        assert!(fired < 2 || FIRED[1] == 22, "[C08.3-order] expired timers fire in list order, each once");
    }
    let expected_next = if fired == 2 {
        None
    } else if fired == 1 {
        Some(t2)
    } else {
        Some(t1)
    };
    assert!(next == expected_next, "[C08.3-next-expiry] pop_timeout reports the expiry time of the first entry left: the timer thread sleeps exactly until then");
    std::mem::forget(entry);
}

//@ obligation: C08.3b
//@ property: C08 C18
//@ kind: K1
//@ complete: yes
//@ functions: <IntervalEntry as Ord>::cmp, PartialOrd::partial_cmp, PartialEq::eq
//@ playback: yes
//@ statement: heap order of the interval lists, for every pair of expiry times: the entry that expires EARLIER compares greater (the max-heap's top is the next
//@ statement: timer to fire, so a pending later timer never delays an earlier one); partial_cmp and eq agree with cmp
#[kani::proof]
#[kani::unwind(3)]
fn c08_3b_heap_order_earliest_on_top() {
    let ta: u64 = kani::any();
    let tb: u64 = kani::any();
    let la: IntervalList<usize> = Arc::new(TimeoutQueueWrapper::new());
    let lb: IntervalList<usize> = Arc::new(TimeoutQueueWrapper::new());
    let a = IntervalEntry { time: ta, list: la, interval: kani::any() };
    let b = IntervalEntry { time: tb, list: lb, interval: kani::any() };
    let c = a.cmp(&b);
    assert!((c == cmp::Ordering::Greater) == (ta < tb), "[C08.3-earliest-on-top] the heap order must put the EARLIEST expiry on top: with any other order a later timer delays an earlier one");
    assert!((c == cmp::Ordering::Equal) == (ta == tb), "[C08.3-earliest-on-top] the heap order must put the EARLIEST expiry on top: with any other order a later timer delays an earlier one");
    assert!(a.partial_cmp(&b) == Some(c) && (a == b) == (ta == tb), "[C08.3-order-consistent] partial_cmp and eq agree with cmp");
    std::mem::forget(a);
    std::mem::forget(b);
}
