//! Poison flag (C09.5 / C13.3): truth table of `Flag::done`, plus a white-box helper used by C12.
//! Child module of `sync/poison.rs`.
//@ file-needs: cz
//@ file-inject: src/sync/poison.rs
use super::*;
use crate::coroutine_impl::vk_support as sup;

impl Guard {
    pub(crate) fn vk_new() -> Guard {
        Guard { panicking: false }
    }
}

pub(crate) fn set_poisoned(f: &Flag, on: bool) {
    f.failed.store(if on { 1 } else { 0 }, Ordering::Relaxed);
}

static mut PANICKING_NOW: bool = false;
static mut WAS_POISONED: bool = false;
fn borrow_reports_poisoned() {
    assert!(unsafe { WAS_POISONED }, "[C13.3-borrow] borrow reports Err iff the flag is poisoned");
}
fn panicking_stub() -> bool {
    unsafe { PANICKING_NOW }
}

//@ obligation: C13.3a
//@ property: C09 C13
//@ kind: K1
//@ complete: yes
//@ functions: poison::Flag::borrow, poison::Flag::done, poison::Flag::get
//@ statement: truth table of the poison flag over (panicking when the guard was made, panicking when it is dropped, context thread/coroutine,
//@ statement: coroutine cancelled or not): the lock becomes poisoned iff the panic started while the guard was alive and it is not the unwinding of a
//@ statement: cancelled coroutine; an already poisoned flag stays poisoned; borrow reports Err iff poisoned
#[kani::proof]
#[kani::stub(crate::scheduler::get_scheduler, sup::get_scheduler_stub)]
#[kani::stub(std::thread::panicking, panicking_stub)]
#[kani::stub(std::sync::PoisonError::new, sup::poison_error_new_stub)]
#[kani::unwind(3)]
fn c13_3a_poison_truth_table() {
    let f = Flag::new();
    let was: bool = kani::any();
    set_poisoned(&f, was);
    let in_coroutine: bool = kani::any();
    let canceled: bool = kani::any();
    if in_coroutine {
        let co = sup::enter_coroutine();
        if canceled {
            sup::cancel_of(co).vk_set_cancel_bit();
        }
    }
    let p0: bool = kani::any();
    let p1: bool = kani::any();
    unsafe {
        PANICKING_NOW = p0;
        WAS_POISONED = was;
        sup::ON_POISON_ERROR = Some(borrow_reports_poisoned);
    }
    // (under Kani a PoisonError cannot be returned — std is built with panic=abort — so the Err arm of borrow() ends
    // in the hook above; the guard of a poisoned flag is built directly)
    let guard = if was {
        if kani::any() {
            let _ = f.borrow();
            assert!(false, "[C13.3-borrow] borrow reports Err iff the flag is poisoned");
        }
        Guard { panicking: p0 }
    } else {
        match f.borrow() {
            Ok(g) => g,
            Err(_) => {
                kani::assume(false);
                loop {}
            }
        }
    };
    assert!(guard.panicking == p0, "[C13.3-guard-records] the guard records whether the thread was already panicking");
    unsafe { PANICKING_NOW = p1 };
    f.done(&guard);
    let expect = was || (!p0 && p1 && !(in_coroutine && canceled));
    assert!(f.get() == expect, "[C13.3-poison-iff] poisoned iff a panic started under the guard and it is not a cancellation unwind");
    kani::cover!(!was && in_coroutine && canceled && !p0 && p1, "cancel unwind does not poison");
    kani::cover!(!was && !p0 && p1 && !in_coroutine, "thread panic poisons");
    sup::leave_coroutine();
}
