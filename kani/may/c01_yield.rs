//! C01 — `yield_now`: a coroutine that yields is put back on a run queue exactly once (it "runs to its end no matter how
//! often it yields"). Child module of `yield_now.rs`. `yield_with` is replaced by a contract that calls the REAL
//! `Yield::subscribe` (static dispatch), the scheduler's `schedule` is an observation point (its own contract: C01.7b).
//@ file-needs: cz
//@ file-inject: src/yield_now.rs
//@ file-property: C01
use super::*;
use crate::coroutine_impl::vk_support as sup;

static mut YIELDS: usize = 0;
static mut CO_ID: usize = 0;

fn yield_with_contract<T: EventSource>(r: &T) {
    unsafe {
        YIELDS += 1;
        let mut co: CoroutineImpl = generator::shim_new_empty(0x1000);
        co.set_local_data(generator::ghost::CUR_LOCAL);
        CO_ID = co.shim_id();
        // a cancel may arrive between yield_with's user-space check and the subscribe on the worker
        if kani::any() {
            crate::coroutine_impl::co_cancel_data(&co).vk_set_cancel_bit();
        }
        let src = r as *const T as *mut T;
        (*src).subscribe(co);
    }
}

//@ obligation: C01.8a
//@ property: C01
//@ kind: K3
//@ complete: yes
//@ functions: yield_now, Yield::subscribe
//@ statement: yield_now in coroutine context suspends the coroutine exactly once and its subscribe hands exactly that coroutine to the scheduler exactly once
//@ statement: (a yielding coroutine is neither lost nor queued twice), also when a cancel arrived in between
#[kani::proof]
#[kani::stub(crate::scheduler::get_scheduler, sup::get_scheduler_stub)]
#[kani::stub(crate::scheduler::Scheduler::schedule, sup::schedule_stub)]
#[kani::stub(crate::coroutine_impl::run_coroutine, sup::run_coroutine_stub)]
#[kani::stub(<crate::park::Park as std::ops::Drop>::drop, sup::park_drop_noop)]
#[kani::stub(crate::yield_now::yield_with, yield_with_contract)]
#[kani::unwind(3)]
fn c01_8a_yield_now_requeues_the_coroutine_once() {
    sup::trace_reset();
    sup::scheduler_reset();
    let _h = sup::enter_coroutine();
    unsafe { YIELDS = 0 };
    yield_now();
    assert!(unsafe { YIELDS } == 1, "[C01.8-yields-once] yield_now suspends the coroutine exactly once");
    let queued = sup::count(sup::E_SCHEDULE) + sup::count(sup::E_SCHEDULE_GLOBAL) + sup::count(sup::E_RUN);
    assert!(queued == 1, "[C01.8-requeued-once] a yielding coroutine must be handed back to the scheduler exactly once: zero loses it, two runs it on two workers");
    let same = sup::resumed_id() == Some(unsafe { CO_ID });
    assert!(same, "[C01.8-same-coroutine] the coroutine handed back is the one that yielded");
    sup::leave_coroutine();
}
