//! C01 / C04 — the scheduler's hand-over of a runnable coroutine: `schedule`, `schedule_global`, `collect_global`,
//! `run_queued_tasks`. Every coroutine handed to the scheduler is put on exactly one queue, the worker that owns
//! that queue is the one that is woken, and a worker goes back to sleep only with its own queues empty and after it
//! has looked at the others. Child module of `scheduler.rs`. The queues are replaced by their contracts (C03/C04:
//! per-queue FIFO ghosts), `run_coroutine` and `Selector::wakeup` are observation points.
//@ file-inject: src/scheduler.rs
//@ file-property: C01
use super::*;
use crate::coroutine_impl::vk_support as sup;
use smallvec::SmallVec;

const W: usize = 3;
const CAP: usize = 4;
type Co = CoroutineImpl;

static mut LQ: [[Option<Co>; CAP]; W] = [const { [const { None }; CAP] }; W];
static mut GQ: [[Option<Co>; CAP]; W] = [const { [const { None }; CAP] }; W];
static mut LOCAL_BASE: *const u8 = std::ptr::null();
static mut GLOBAL_BASE: *const u8 = std::ptr::null();
static mut STEAL_BASE: *const u8 = std::ptr::null();
static mut CLOCK: usize = 0;
static mut PUSHES: usize = 0;
static mut LAST_PUSH_AT: usize = 0;
static mut LAST_PUSH_GLOBAL: usize = usize::MAX;
static mut LAST_PUSH_LOCAL: usize = usize::MAX;
static mut WAKEUPS: usize = 0;
static mut LAST_WAKE_AT: usize = 0;
static mut LAST_WAKE_ID: usize = usize::MAX;
static mut RUN_IDS: [usize; 4] = [0; 4];
static mut RUNS: usize = 0;
static mut STEAL_TRIES_SINCE_LAST_RUN: usize = 0;
static mut BULK_POPS: usize = 0;

unsafe fn erase<T>(v: T) -> Co {
    assert!(std::mem::size_of::<T>() == std::mem::size_of::<Co>());
    let c = std::mem::transmute_copy::<T, Co>(&v);
    std::mem::forget(v);
    c
}
unsafe fn unerase<T>(c: Co) -> T {
    let v = std::mem::transmute_copy::<Co, T>(&c);
    std::mem::forget(c);
    v
}
/// FIFO ghosts without wrap-around, addressed by (kind, worker): kind 0 = local queue, 1 = global queue
unsafe fn qs(kind: usize) -> &'static mut [[Option<Co>; CAP]; W] {
    if kind == 0 {
        &mut *(&raw mut LQ)
    } else {
        &mut *(&raw mut GQ)
    }
}
unsafe fn q_len(kind: usize, w: usize) -> usize {
    TAILS[kind][w] - HEADS[kind][w]
}
unsafe fn q_push(kind: usize, w: usize, c: Co) {
    let at = TAILS[kind][w];
    if at >= CAP {
        kani::assume(false);
    }
    std::ptr::write(&mut qs(kind)[w][at], Some(c));
    TAILS[kind][w] = at + 1;
}
unsafe fn q_pop(kind: usize, w: usize) -> Option<Co> {
    let head = HEADS[kind][w];
    if head == TAILS[kind][w] {
        return None;
    }
    let r = std::ptr::replace(&mut qs(kind)[w][head], None);
    HEADS[kind][w] = head + 1;
    r
}
unsafe fn q_at(kind: usize, w: usize, i: usize) -> Option<usize> {
    qs(kind)[w][HEADS[kind][w] + i].as_ref().map(|c| c.shim_id())
}
static mut HEADS: [[usize; W]; 2] = [[0; W]; 2];
static mut TAILS: [[usize; W]; 2] = [[0; W]; 2];

/// which element of the vector starting at `base` is `p` (pointer comparisons only: CBMC keeps them concrete, unlike
/// pointer-to-integer arithmetic); W if none
unsafe fn index_of(p: *const u8, base: *const u8, size: usize) -> usize {
    if p == base {
        0
    } else if p == base.add(size) {
        1
    } else if p == base.add(2 * size) {
        2
    } else {
        W
    }
}
fn local_index<T: 'static>(l: *const Local<T>) -> usize {
    let i = unsafe { index_of(l as *const u8, LOCAL_BASE, std::mem::size_of::<UnsafeCell<Local<T>>>()) };
    assert!(i < W, "[C01.7-queue-in-bounds] the scheduler indexes a local queue that does not exist");
    i
}
fn global_index<T>(q: *const Queue<T>) -> usize {
    let i = unsafe { index_of(q as *const u8, GLOBAL_BASE, std::mem::size_of::<Queue<T>>()) };
    assert!(i < W, "[C01.7-queue-in-bounds] the scheduler indexes a global queue that does not exist");
    i
}

fn local_push_back<T: 'static>(l: &mut Local<T>, task: T) {
    let i = local_index(l);
    unsafe {
        CLOCK += 1;
        PUSHES += 1;
        LAST_PUSH_AT = CLOCK;
        LAST_PUSH_LOCAL = i;
        q_push(0, i, erase(task));
    }
}
fn local_pop<T: 'static>(l: &mut Local<T>) -> Option<T> {
    let i = local_index(l);
    unsafe { q_pop(0, i).map(|c| unerase(c)) }
}
fn local_has_tasks<T: 'static>(l: &Local<T>) -> bool {
    let i = local_index(l);
    unsafe { q_len(0, i) > 0 }
}
/// contract of `steal_into` (C04): one task of the victim's batch is returned, the rest of the batch goes to `dst`
fn steal_into_contract<T: 'static>(s: &Steal<T>, dst: &mut Local<T>) -> Option<T> {
    let v = unsafe { index_of(s as *const Steal<T> as *const u8, STEAL_BASE, std::mem::size_of::<Steal<T>>()) };
    assert!(v < W, "[C01.7-queue-in-bounds] the scheduler indexes a stealer that does not exist");
    let d = local_index(dst);
    unsafe {
        STEAL_TRIES_SINCE_LAST_RUN += 1;
        let first = q_pop(0, v);
        if first.is_some() && v != d {
            if let Some(second) = q_pop(0, v) {
                q_push(0, d, second);
            }
        }
        first.map(|c| unerase(c))
    }
}
fn global_push<T>(q: &Queue<T>, v: T) {
    let i = global_index(q);
    unsafe {
        CLOCK += 1;
        PUSHES += 1;
        LAST_PUSH_AT = CLOCK;
        LAST_PUSH_GLOBAL = i;
        q_push(1, i, erase(v));
    }
}
/// contract of `bulk_pop` (C03): some non-empty prefix of the queue, empty only if the queue is empty. Here: one
/// element per call, which makes the caller's "until empty" loop necessary
fn global_bulk_pop<T>(q: &Queue<T>) -> SmallVec<[T; may_queue::mpsc::BLOCK_SIZE]> {
    let i = global_index(q);
    let mut v = SmallVec::new();
    unsafe {
        BULK_POPS += 1;
        if let Some(c) = q_pop(1, i) {
            v.push(unerase(c));
        }
    }
    v
}
/// contract of `collect_global` (C01.7c): everything in worker i's global queue is appended to its local queue
fn collect_global_contract(_s: &Scheduler, id: usize) {
    assert!(id < W, "[C01.7-queue-in-bounds] the scheduler indexes a global queue that does not exist");
    unsafe {
        COLLECTS += 1;
        if let Some(c) = q_pop(1, id) {
            q_push(0, id, c);
        }
        if let Some(c) = q_pop(1, id) {
            q_push(0, id, c);
        }
    }
}
static mut COLLECTS: usize = 0;
fn wakeup_stub(_s: &Selector, id: usize) {
    unsafe {
        CLOCK += 1;
        WAKEUPS += 1;
        LAST_WAKE_AT = CLOCK;
        LAST_WAKE_ID = id;
    }
}
fn get_selector_stub(_s: &Scheduler) -> &'static Selector {
    unsafe { std::mem::transmute::<usize, &'static Selector>(128) }
}
fn run_coroutine_observed(co: Co) {
    unsafe {
        if RUNS >= 4 {
            kani::assume(false);
        }
        RUN_IDS[RUNS] = co.shim_id();
        RUNS += 1;
        STEAL_TRIES_SINCE_LAST_RUN = 0;
    }
    std::mem::forget(co);
}

/// a Scheduler with `workers` workers of which only the queue vectors and the worker count exist (everything else is
/// never touched: the queue methods, the selector and run_coroutine are replaced)
fn mk_sched(workers: usize) -> &'static Scheduler {
    unsafe {
        let p = Box::into_raw(Box::<Scheduler>::new_uninit()) as *mut Scheduler;
        let mut lq: Vec<UnsafeCell<Local<Co>>> = Vec::with_capacity(W);
        lq.as_mut_ptr().write_bytes(0, W);
        lq.set_len(workers);
        LOCAL_BASE = lq.as_ptr() as *const u8;
        let mut st: Vec<Steal<Co>> = Vec::with_capacity(W);
        st.as_mut_ptr().write_bytes(0, W);
        st.set_len(workers);
        STEAL_BASE = st.as_ptr() as *const u8;
        let mut gq: Vec<Queue<Co>> = Vec::with_capacity(W);
        gq.as_mut_ptr().write_bytes(0, W);
        gq.set_len(workers);
        GLOBAL_BASE = gq.as_ptr() as *const u8;
        std::ptr::addr_of_mut!((*p).local_queues).write(lq);
        std::ptr::addr_of_mut!((*p).stealers).write(st);
        std::ptr::addr_of_mut!((*p).global_queues).write(gq);
        std::ptr::addr_of_mut!((*p).workers).write(workers);
        HEADS = [[0; W]; 2];
        TAILS = [[0; W]; 2];
        CLOCK = 0;
        PUSHES = 0;
        WAKEUPS = 0;
        RUNS = 0;
        BULK_POPS = 0;
        STEAL_TRIES_SINCE_LAST_RUN = 0;
        LAST_PUSH_GLOBAL = usize::MAX;
        LAST_PUSH_LOCAL = usize::MAX;
        LAST_WAKE_ID = usize::MAX;
        &*p
    }
}
fn new_co() -> (Co, usize) {
    let co: Co = generator::shim_new_empty(0x1000);
    let id = co.shim_id();
    (co, id)
}

//@ obligation: C01.7a
//@ property: C01 C04
//@ kind: K2
//@ complete: no
//@ bound: 3 workers (and 1 worker), four consecutive calls
//@ functions: Scheduler::schedule_global, Scheduler::schedule_global_with_id
//@ statement: schedule_global puts the coroutine on exactly one global queue that exists (index < workers), and then wakes exactly the worker that owns
//@ statement: that queue — push first, wake-up second, same index. schedule_global_with_id does the same
//@ statement: for the worker id % workers, for every id
#[kani::proof]
#[kani::stub(may_queue::mpsc::Queue::push, global_push)]
#[kani::stub(crate::scheduler::Scheduler::get_selector, get_selector_stub)]
#[kani::stub(crate::io::sys::Selector::wakeup, wakeup_stub)]
#[kani::unwind(6)]
fn c01_7a_schedule_global() {
    let workers: usize = if kani::any() { 3 } else { 1 };
    let s = mk_sched(workers);
    let mut k = 0;
    while k < 4 {
        let (co, id) = new_co();
        s.schedule_global(co);
        unsafe {
            assert!(PUSHES == k + 1 && WAKEUPS >= k + 1, "[C01.7-one-queue] a scheduled coroutine is put on exactly one queue and its owner is woken for it (a second wake-up is harmless, a second push is not)");
            let t = LAST_PUSH_GLOBAL;
            assert!(t < workers, "[C01.7-queue-in-bounds] the scheduler indexes a global queue that does not exist");
            assert!(LAST_WAKE_ID == t, "[C01.7-wake-the-owner] the worker that is woken is not the one whose queue received the coroutine: it stays queued until something else wakes that worker");
            assert!(LAST_PUSH_AT < LAST_WAKE_AT, "[C01.7-push-before-wake] the worker is woken before the coroutine is in its queue: it finds nothing and goes back to sleep");
            assert!(q_at(1, t, q_len(1, t) - 1) == Some(id), "[C01.7-same-coroutine] the coroutine queued is the one that was scheduled");
        }
        k += 1;
    }
    // explicit target
    let target: usize = kani::any();
    let (co, _) = new_co();
    s.schedule_global_with_id(co, target);
    unsafe {
        assert!(PUSHES == 5 && WAKEUPS >= 5 && LAST_PUSH_GLOBAL == target % workers && LAST_WAKE_ID == LAST_PUSH_GLOBAL && LAST_PUSH_AT < LAST_WAKE_AT, "[C01.7-with-id] schedule_global_with_id queues on worker id % workers and wakes that worker afterwards");
    }
}

//@ obligation: C01.7b
//@ property: C01 C04
//@ kind: K2
//@ complete: no
//@ bound: 3 workers
//@ functions: Scheduler::schedule, Scheduler::schedule_with_id
//@ statement: schedule puts the coroutine on exactly one queue: either the calling worker's OWN local queue (single producer; nobody needs to be woken, the
//@ statement: worker is running) or a global queue whose owner is woken afterwards; a thread that is not a worker never touches a local queue
#[kani::proof]
#[kani::stub(may_queue::mpsc::Queue::push, global_push)]
#[kani::stub(may_queue::spmc::Local::push_back, local_push_back)]
#[kani::stub(crate::scheduler::Scheduler::get_selector, get_selector_stub)]
#[kani::stub(crate::io::sys::Selector::wakeup, wakeup_stub)]
#[kani::unwind(6)]
fn c01_7b_schedule() {
    let s = mk_sched(W);
    let on_worker: bool = kani::any();
    let wid: usize = kani::any();
    kani::assume(wid < W);
    WORKER_ID.set(if on_worker { wid } else { usize::MAX });
    let (co, id) = new_co();
    s.schedule(co);
    unsafe {
        assert!(PUSHES == 1, "[C01.7-one-queue] a scheduled coroutine is put on exactly one queue and exactly one worker is woken for it");
        if LAST_PUSH_LOCAL != usize::MAX {
            // a local queue has a single producer, its owner (precondition of the spmc queue contract, C04)
            assert!(on_worker && LAST_PUSH_LOCAL == wid && LAST_PUSH_GLOBAL == usize::MAX, "[C01.7-own-local-queue] a local run queue is pushed by a thread that does not own it (the queue has a single producer)");
            assert!(q_at(0, wid, 0) == Some(id), "[C01.7-same-coroutine] the coroutine queued is the one that was scheduled");
        } else {
            assert!(LAST_PUSH_GLOBAL < W && WAKEUPS >= 1 && LAST_WAKE_ID == LAST_PUSH_GLOBAL && LAST_PUSH_AT < LAST_WAKE_AT, "[C01.7-global-wakes-owner] a coroutine scheduled through a global queue: the owner of that queue is woken afterwards");
        }
    }
    WORKER_ID.set(usize::MAX);
}

fn fill(local: usize, global: usize, victim: usize, id: usize, vic: usize) -> usize {
    let mut n = 0;
    unsafe {
        let mut i = 0;
        while i < local {
            q_push(0, id, new_co().0);
            i += 1;
            n += 1;
        }
        i = 0;
        while i < global {
            q_push(1, id, new_co().0);
            i += 1;
            n += 1;
        }
        i = 0;
        while i < victim {
            q_push(0, vic, new_co().0);
            i += 1;
            n += 1;
        }
    }
    n
}

//@ obligation: C01.7c
//@ property: C01 C04
//@ kind: K2
//@ complete: no
//@ bound: 3 workers, two coroutines in the global queue, bulk_pop handing out one per call
//@ functions: Scheduler::collect_global
//@ statement: collect_global(i) moves every coroutine of worker i's global queue to worker i's local queue, in order, each exactly once, and keeps asking
//@ statement: until bulk_pop returns nothing
#[kani::proof]
#[kani::stub(may_queue::mpsc::Queue::bulk_pop, global_bulk_pop)]
#[kani::stub(may_queue::spmc::Local::push_back, local_push_back)]
#[kani::unwind(6)]
fn c01_7c_collect_global() {
    let s = mk_sched(W);
    let id: usize = 1;
    let (a, ida) = new_co();
    let (b, idb) = new_co();
    unsafe {
        q_push(1, id, a);
        q_push(1, id, b);
    }
    s.collect_global(id);
    unsafe {
        assert!(q_len(1, id) == 0, "[C01.7-collect-all] collect_global leaves coroutines behind in the global queue: nothing will look there again until the next wake-up");
        assert!(q_len(0, id) == 2 && PUSHES == 2, "[C01.7-collect-once] every collected coroutine is put on the local queue exactly once");
        assert!(q_at(0, id, 0) == Some(ida) && q_at(0, id, 1) == Some(idb), "[C01.7-collect-order] collected coroutines keep their order");
        assert!(q_len(0, 0) == 0 && q_len(0, 2) == 0, "[C01.7-collect-own] collect_global(i) fills worker i's local queue only");
    }
}

fn run_queued<const L: usize, const G: usize, const V1: usize, const V2: usize>() {
    let s = mk_sched(W);
    let id: usize = 1;
    let n = fill(L, G, V1, id, 2) + fill(0, 0, V2, id, 0);
    s.run_queued_tasks(id);
    unsafe {
        assert!(q_len(0, id) == 0 && q_len(1, id) == 0, "[C01.7-own-queues-empty] the worker goes back to sleep with its own local or global queue non-empty: those coroutines wait for an unrelated wake-up");
        assert!(RUNS >= L + G, "[C01.7-own-queues-empty] the worker goes back to sleep with its own local or global queue non-empty: those coroutines wait for an unrelated wake-up");
        assert!(RUNS + q_len(0, 0) + q_len(0, 2) == n, "[C01.7-conservation] a coroutine taken from a queue is either run or put on the worker's own queue: none is dropped, none is run twice");
        let mut i = 0;
        while i < RUNS {
            let mut j = i + 1;
            while j < RUNS {
                assert!(RUN_IDS[i] != RUN_IDS[j], "[C01.7-run-all-once] a coroutine was run twice");
                j += 1;
            }
            i += 1;
        }
    }
}

//@ obligation: C01.7d.0
//@ property: C01 C04
//@ kind: K2
//@ complete: no
//@ bound: 3 workers; one coroutine each in the worker's local queue, its global queue and each neighbour's local queue
//@ functions: Scheduler::run_queued_tasks
//@ statement: run_queued_tasks(i) returns (the worker goes to sleep in epoll) only with its own local and global queue empty; every coroutine it took from a
//@ statement: queue (its own or a neighbour's) was run exactly once — none dropped, none run twice (stealing itself is not demanded)
#[kani::proof]
#[kani::stub(crate::scheduler::Scheduler::collect_global, collect_global_contract)]
#[kani::stub(may_queue::spmc::Local::pop, local_pop)]
#[kani::stub(may_queue::spmc::Local::has_tasks, local_has_tasks)]
#[kani::stub(may_queue::spmc::Steal::steal_into, steal_into_contract)]
#[kani::stub(crate::coroutine_impl::run_coroutine, run_coroutine_observed)]
#[kani::unwind(7)]
fn c01_7d_0() {
    run_queued::<1, 1, 1, 1>();
}

//@ obligation: C01.7d.1
//@ property: C01 C04
//@ kind: K2
//@ complete: no
//@ bound: 3 workers; only the global queue holds a coroutine
//@ functions: Scheduler::run_queued_tasks
//@ statement: variant [nothing local, one coroutine in the global queue]: it is collected and run before the worker sleeps
#[kani::proof]
#[kani::stub(crate::scheduler::Scheduler::collect_global, collect_global_contract)]
#[kani::stub(may_queue::spmc::Local::pop, local_pop)]
#[kani::stub(may_queue::spmc::Local::has_tasks, local_has_tasks)]
#[kani::stub(may_queue::spmc::Steal::steal_into, steal_into_contract)]
#[kani::stub(crate::coroutine_impl::run_coroutine, run_coroutine_observed)]
#[kani::unwind(4)]
fn c01_7d_1() {
    run_queued::<0, 1, 0, 0>();
}

//@ obligation: C01.7d.2
//@ property: C01 C04
//@ kind: K2
//@ complete: no
//@ bound: 3 workers; only the second neighbour holds a coroutine
//@ functions: Scheduler::run_queued_tasks
//@ statement: variant [own queues empty, the second neighbour has one coroutine queued]: it is stolen and run before the worker sleeps
#[kani::proof]
#[kani::stub(crate::scheduler::Scheduler::collect_global, collect_global_contract)]
#[kani::stub(may_queue::spmc::Local::pop, local_pop)]
#[kani::stub(may_queue::spmc::Local::has_tasks, local_has_tasks)]
#[kani::stub(may_queue::spmc::Steal::steal_into, steal_into_contract)]
#[kani::stub(crate::coroutine_impl::run_coroutine, run_coroutine_observed)]
#[kani::unwind(4)]
fn c01_7d_2() {
    run_queued::<0, 0, 0, 1>();
}
