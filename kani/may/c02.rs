//! C02 — park/unpark never loses a wake-up (coroutine side). Child module of `park.rs`.
//!
//! The code under test is the real `Park::{park_timeout, check_park, subscribe, unpark_impl, wake_up,
//! fast_wake_up, remove_timeout_handle, yield_back}`, `yield_with`, `CancelImpl::cancel`, run in coroutine
//! context on the generator shim. A park that has to yield reaches the harness's yield hook, which plays the
//! worker thread and the environment: environment events BEFORE the worker calls `subscribe` (the classic
//! lost-wake-up window), the real `subscribe`, environment events AFTER it. Events are the real `Park::unpark`,
//! the real `Cancel::cancel` and the timer expiry (`vk_tl::timer_fires`). The hook then checks that the parked
//! coroutine was handed to the scheduler exactly once iff an event happened, moves the passed-in result into the
//! coroutine context (what `resume` does) and returns, which is the coroutine being resumed.
//!
//! TOOL LIMIT (recorded in DESIGN.md): only the schedules that resume the coroutine from inside `subscribe`
//! (the lost-wake-up window, C02.2.0 / C02.2.7) are within CBMC's reach; every schedule that completes
//! `subscribe` (registration with the Cancel object) exceeds 15 minutes of symbolic execution. Those harnesses
//! stay in this file with `tier: experimental` and are never run by the registered commands.
//@ file-needs: tl cz
//@ file-inject: src/park.rs
//@ file-property: C02
use super::*;
use crate::coroutine_impl::vk_support as sup;
use crate::coroutine_impl::EventSubscriber;
use crate::timeout_list::vk_tl as tl;

static mut PARK: *const Park = std::ptr::null();
static mut CO: Option<&'static crate::coroutine_impl::Coroutine> = None;
// which events the environment produced: bit0 unpark, bit1 timer, bit2 cancel
static mut EVENTS_BEFORE: u8 = 0;
static mut EVENTS_AFTER: u8 = 0;
static mut HOOK_RAN: usize = 0;
static mut RESUMPTIONS_SEEN: usize = 0;
static mut TIMER_WAS_ARMED: bool = false;

fn resumptions() -> usize {
    sup::count(sup::E_SCHEDULE) + sup::count(sup::E_SCHEDULE_GLOBAL) + sup::count(sup::E_RUN)
}

/// the environment's schedule for this run: which events happen before / after the worker subscribes.
/// CONCRETE per harness (bit0 unpark, bit1 timer, bit2 cancel): CBMC cannot cope with heap-changing events
/// chosen symbolically (pointers and error tags stop being constants and every destructor becomes reachable),
/// so the harnesses enumerate the schedules instead.
static mut SCRIPT_BEFORE: u8 = 0;
static mut SCRIPT_AFTER: u8 = 0;

fn env_events(mask: u8, may_timer: bool) -> u8 {
    let mut done = 0u8;
    let p = unsafe { &*PARK };
    if mask & 1 != 0 {
        p.unpark();
        done |= 1;
    }
    if may_timer && mask & 2 != 0 {
        let data = unsafe { tl::LAST_TIMER_DATA.clone() };
        if let Some(d) = data {
            tl::timer_fires(&d);
            done |= 2;
        }
    }
    if mask & 4 != 0 {
        let co = unsafe { CO.unwrap() };
        unsafe { sup::cancel_of(co).cancel() };
        done |= 4;
    }
    done
}

/// the worker thread + environment, entered when the coroutine under test yields
fn yield_hook(slot: *mut u8) {
    unsafe {
        HOOK_RAN += 1;
        let es: EventSubscriber = (*(slot as *mut Option<EventSubscriber>)).take().unwrap();
        // the suspended coroutine object the worker holds after the switch
        let mut co: CoroutineImpl = generator::shim_new_empty(0x1000);
        co.set_local_data(generator::ghost::CUR_LOCAL);
        // --- window 1: the coroutine has left its stack, the worker has not subscribed yet ---
        EVENTS_BEFORE = env_events(SCRIPT_BEFORE, false);
        // --- the real subscribe (static dispatch, see vk_support::es_points_to) ---
        assert!(sup::es_points_to(&es, PARK), "[C02.2-subscriber-target] the yielded EventSubscriber must refer to the Park the coroutine parks on");
        std::mem::forget(es);
        EventSource::subscribe(&mut *(PARK as *mut Park), co);
        TIMER_WAS_ARMED = tl::ADD_TIMERS > 0;
        // --- window 2: registered and waiting ---
        if resumptions() == 0 {
            EVENTS_AFTER = env_events(SCRIPT_AFTER, true);
        }
        let n = resumptions();
        RESUMPTIONS_SEEN = n;
        if EVENTS_BEFORE | EVENTS_AFTER != 0 {
            assert!(n >= 1, "[C02.2-no-lost-wakeup] an unpark / time-out / cancel happened but the parked coroutine was not handed to the scheduler: it sleeps forever");
        }
        assert!(n <= 1, "[C02.5-single-resumption] the parked coroutine was handed to the scheduler more than once");
        if n == 0 {
            // nobody woke it: it stays parked; nothing more to check on this path
            kani::assume(false);
        }
        // resume: the passed-in result travels with the coroutine object
        let mut resumed = match sup::SCHEDULED.take() {
            Some(c) => c,
            None => sup::RAN.take().unwrap(),
        };
        sup::set_current_para(resumed.shim_take_para());
        std::mem::forget(resumed);
    }
}

fn setup(before: u8, after: u8, ignore_cancel: bool) -> &'static Park {
    sup::trace_reset();
    sup::scheduler_reset();
    tl::timers_reset();
    let co = sup::enter_coroutine();
    let p: &'static Park = Box::leak(Box::new(Park::new()));
    p.ignore_cancel(ignore_cancel);
    unsafe {
        PARK = p;
        CO = Some(co);
        EVENTS_BEFORE = 0;
        EVENTS_AFTER = 0;
        HOOK_RAN = 0;
        RESUMPTIONS_SEEN = 0;
        SCRIPT_BEFORE = before;
        SCRIPT_AFTER = after;
        TIMER_WAS_ARMED = false;
        generator::ghost::YIELDS = 0;
        generator::ghost::YIELD_HOOK = Some(yield_hook);
        sup::ON_CANCEL_PANIC = None;
    }
    p
}

//@ obligation: C02.1a
//@ kind: K2
//@ complete: yes
//@ functions: Park::unpark, Park::unpark_impl, Park::check_park, Park::park_timeout
//@ statement: token semantics without blocking: after unpark() (once or twice) the next park_timeout returns Ok at once — zero yields, nothing
//@ statement: scheduled — and consumes the token: exactly one token is left by any number of unparks, none after the park
#[kani::proof]
#[kani::stub(crate::scheduler::get_scheduler, sup::get_scheduler_stub)]
#[kani::stub(crate::scheduler::Scheduler::schedule, sup::schedule_stub)]
#[kani::stub(crate::scheduler::Scheduler::add_timer, tl::add_timer_stub)]
#[kani::stub(crate::scheduler::Scheduler::del_timer, tl::del_timer_stub)]
#[kani::stub(crate::coroutine_impl::run_coroutine, sup::run_coroutine_stub)]
#[kani::stub(crate::cancel::trigger_cancel_panic, sup::cancel_panic_stub)]
#[kani::stub(<crate::park::Park as std::ops::Drop>::drop, sup::park_drop_noop)]
#[kani::stub(crate::yield_now::set_co_para, sup::set_co_para_kind_only)]
#[kani::stub(generator::co_set_para, sup::co_set_para_kind_only)]
#[kani::unwind(3)]
fn c02_1a_token_is_kept_and_consumed() {
    let p = setup(0, 0, true);
    p.unpark();
    if kani::any() {
        p.unpark();
    }
    assert!(resumptions() == 0, "[C02.1-unpark-idle] unparking a handle nobody is parked on schedules nothing");
    let timed: bool = kani::any();
    let r = p.park_timeout(if timed { Some(Duration::from_millis(2)) } else { None });
    assert!(r.is_ok(), "[C02.1-token-ok] a park that finds a token returns Ok");
    assert!(unsafe { generator::ghost::YIELDS } == 0 && unsafe { HOOK_RAN } == 0, "[C02.1-token-no-block] a park that finds a token does not yield");
    assert!(!p.state.load(Ordering::Acquire), "[C02.1-token-consumed] the park consumes the token (two unparks leave one)");
    assert!(unsafe { tl::ADD_TIMERS } == 0, "[C02.1-no-timer] no timer is armed when the park does not block");
    sup::leave_coroutine();
}

fn blocking_park<const BEFORE: u8, const AFTER: u8, const TIMED: bool>() {
    // the Blocker flavour: the caller handles the cancel result itself (no panic inside park)
    let p = setup(BEFORE, AFTER, true);
    let timed: bool = TIMED;
    let d = Duration::from_millis(7);
    let r = p.park_timeout(if timed { Some(d) } else { None });
    // reaching this point means the coroutine was resumed
    assert!(unsafe { generator::ghost::YIELDS } == 1 && unsafe { HOOK_RAN } == 1, "[C02.2-one-yield] a blocking park yields exactly once");
    let ev = unsafe { EVENTS_BEFORE | EVENTS_AFTER };
    assert!(ev != 0 && unsafe { RESUMPTIONS_SEEN } == 1, "[C02.2-resumed-for-a-reason] the park returned although nothing woke it");
    match r {
        Ok(()) => assert!(ev & 1 != 0 || ev & 4 != 0, "[C02.2-ok-needs-unpark] Ok without an unpark"),
        Err(ParkError::Timeout) => assert!(timed && ev & 2 != 0, "[C02.2-timeout-needs-timer] Timeout although no timer fired"),
        Err(ParkError::Canceled) => assert!(ev & 4 != 0, "[C02.2-canceled-needs-cancel] Canceled although nobody cancelled the coroutine"),
    }
    if ev == 1 {
        assert!(r.is_ok(), "[C02.2-unpark-ok] an unpark alone makes the park return Ok");
    }
    if ev == 2 {
        assert!(r == Err(ParkError::Timeout), "[C02.2-timer-timeout] a time-out alone makes the park return Timeout");
    }
    assert!(unsafe { TIMER_WAS_ARMED } == timed, "[C02.2-timer-armed-iff] a timer is armed iff a time-out was given");
    if timed {
        assert!(unsafe { tl::LAST_TIMER_DUR } == Some(d), "[C08.5-duration-unchanged] the caller's duration reaches the timer unchanged");
    }
    // clean-up on every path
    assert!(!p.state.load(Ordering::Acquire), "[C02.4-token-cleared] the token is cleared after the park");
    assert!(!sup::current_para_is_some(), "[C15.3-result-consumed] the passed-in result is consumed before park returns");
    assert!(p.timeout_handle.load(Ordering::Relaxed).is_null(), "[C02.4-timer-removed] the timer handle is removed after the park");
    assert!(p.timeout.take().is_none(), "[C02.4-timeout-cleared] the stored time-out does not leak into the next park");
    sup::leave_coroutine();
}


//@ obligation: C02.2.0
//@ kind: K3
//@ complete: yes
//@ functions: Park::park_timeout, Park::subscribe, Park::unpark_impl, Park::wake_up, Park::fast_wake_up, Park::remove_timeout_handle, Park::yield_back, yield_with, CancelImpl::cancel
//@ statement: schedule [unpark in the lost-wake-up window (after the coroutine left its stack, before the worker subscribes)]: a park that has to block (caller handles the cancel result); whenever at least one of them happened the coroutine is handed to the scheduler
//@ statement: exactly once (never lost, never twice); the park then returns Ok for an unpark alone, Timeout only if the timer fired, Canceled only if
//@ statement: it was cancelled; the token, the passed-in result and the timer are cleaned up; exactly one yield
#[kani::proof]
#[kani::stub(crate::scheduler::get_scheduler, sup::get_scheduler_stub)]
#[kani::stub(crate::scheduler::Scheduler::schedule, sup::schedule_stub)]
#[kani::stub(crate::scheduler::Scheduler::add_timer, tl::add_timer_stub)]
#[kani::stub(crate::scheduler::Scheduler::del_timer, tl::del_timer_stub)]
#[kani::stub(crate::coroutine_impl::run_coroutine, sup::run_coroutine_stub)]
#[kani::stub(crate::cancel::trigger_cancel_panic, sup::cancel_panic_stub)]
#[kani::stub(<crate::park::Park as std::ops::Drop>::drop, sup::park_drop_noop)]
#[kani::stub(crate::yield_now::set_co_para, sup::set_co_para_kind_only)]
#[kani::stub(generator::co_set_para, sup::co_set_para_kind_only)]
#[kani::unwind(3)]
fn c02_2_sched_0_b1_a0_untimed() {
    blocking_park::<1, 0, false>();
}

//@ obligation: C02.2.1
//@ tier: experimental
//@ kind: K3
//@ complete: yes
//@ functions: Park::park_timeout, Park::subscribe, Park::unpark_impl, Park::wake_up, Park::fast_wake_up, Park::remove_timeout_handle, Park::yield_back, yield_with, CancelImpl::cancel
//@ statement: schedule [unpark after the worker subscribed]: a park that has to block (caller handles the cancel result); whenever at least one of them happened the coroutine is handed to the scheduler
//@ statement: exactly once (never lost, never twice); the park then returns Ok for an unpark alone, Timeout only if the timer fired, Canceled only if
//@ statement: it was cancelled; the token, the passed-in result and the timer are cleaned up; exactly one yield
#[kani::proof]
#[kani::stub(crate::scheduler::get_scheduler, sup::get_scheduler_stub)]
#[kani::stub(crate::scheduler::Scheduler::schedule, sup::schedule_stub)]
#[kani::stub(crate::scheduler::Scheduler::add_timer, tl::add_timer_stub)]
#[kani::stub(crate::scheduler::Scheduler::del_timer, tl::del_timer_stub)]
#[kani::stub(crate::coroutine_impl::run_coroutine, sup::run_coroutine_stub)]
#[kani::stub(crate::cancel::trigger_cancel_panic, sup::cancel_panic_stub)]
#[kani::stub(<crate::park::Park as std::ops::Drop>::drop, sup::park_drop_noop)]
#[kani::stub(crate::yield_now::set_co_para, sup::set_co_para_kind_only)]
#[kani::stub(generator::co_set_para, sup::co_set_para_kind_only)]
#[kani::unwind(3)]
fn c02_2_sched_1_b0_a1_untimed() {
    blocking_park::<0, 1, false>();
}

//@ obligation: C02.2.2
//@ tier: experimental
//@ kind: K3
//@ complete: yes
//@ functions: Park::park_timeout, Park::subscribe, Park::unpark_impl, Park::wake_up, Park::fast_wake_up, Park::remove_timeout_handle, Park::yield_back, yield_with, CancelImpl::cancel
//@ statement: schedule [the timer fires]: a park that has to block (caller handles the cancel result); whenever at least one of them happened the coroutine is handed to the scheduler
//@ statement: exactly once (never lost, never twice); the park then returns Ok for an unpark alone, Timeout only if the timer fired, Canceled only if
//@ statement: it was cancelled; the token, the passed-in result and the timer are cleaned up; exactly one yield
#[kani::proof]
#[kani::stub(crate::scheduler::get_scheduler, sup::get_scheduler_stub)]
#[kani::stub(crate::scheduler::Scheduler::schedule, sup::schedule_stub)]
#[kani::stub(crate::scheduler::Scheduler::add_timer, tl::add_timer_stub)]
#[kani::stub(crate::scheduler::Scheduler::del_timer, tl::del_timer_stub)]
#[kani::stub(crate::coroutine_impl::run_coroutine, sup::run_coroutine_stub)]
#[kani::stub(crate::cancel::trigger_cancel_panic, sup::cancel_panic_stub)]
#[kani::stub(<crate::park::Park as std::ops::Drop>::drop, sup::park_drop_noop)]
#[kani::stub(crate::yield_now::set_co_para, sup::set_co_para_kind_only)]
#[kani::stub(generator::co_set_para, sup::co_set_para_kind_only)]
#[kani::unwind(3)]
fn c02_2_sched_2_b0_a2_timed() {
    blocking_park::<0, 2, true>();
}

//@ obligation: C02.2.3
//@ tier: experimental
//@ kind: K3
//@ complete: yes
//@ functions: Park::park_timeout, Park::subscribe, Park::unpark_impl, Park::wake_up, Park::fast_wake_up, Park::remove_timeout_handle, Park::yield_back, yield_with, CancelImpl::cancel
//@ statement: schedule [unpark while a timer is armed]: a park that has to block (caller handles the cancel result); whenever at least one of them happened the coroutine is handed to the scheduler
//@ statement: exactly once (never lost, never twice); the park then returns Ok for an unpark alone, Timeout only if the timer fired, Canceled only if
//@ statement: it was cancelled; the token, the passed-in result and the timer are cleaned up; exactly one yield
#[kani::proof]
#[kani::stub(crate::scheduler::get_scheduler, sup::get_scheduler_stub)]
#[kani::stub(crate::scheduler::Scheduler::schedule, sup::schedule_stub)]
#[kani::stub(crate::scheduler::Scheduler::add_timer, tl::add_timer_stub)]
#[kani::stub(crate::scheduler::Scheduler::del_timer, tl::del_timer_stub)]
#[kani::stub(crate::coroutine_impl::run_coroutine, sup::run_coroutine_stub)]
#[kani::stub(crate::cancel::trigger_cancel_panic, sup::cancel_panic_stub)]
#[kani::stub(<crate::park::Park as std::ops::Drop>::drop, sup::park_drop_noop)]
#[kani::stub(crate::yield_now::set_co_para, sup::set_co_para_kind_only)]
#[kani::stub(generator::co_set_para, sup::co_set_para_kind_only)]
#[kani::unwind(3)]
fn c02_2_sched_3_b0_a1_timed() {
    blocking_park::<0, 1, true>();
}

//@ obligation: C02.2.4
//@ tier: experimental
//@ kind: K3
//@ complete: yes
//@ functions: Park::park_timeout, Park::subscribe, Park::unpark_impl, Park::wake_up, Park::fast_wake_up, Park::remove_timeout_handle, Park::yield_back, yield_with, CancelImpl::cancel
//@ statement: schedule [cancel before the worker subscribes]: a park that has to block (caller handles the cancel result); whenever at least one of them happened the coroutine is handed to the scheduler
//@ statement: exactly once (never lost, never twice); the park then returns Ok for an unpark alone, Timeout only if the timer fired, Canceled only if
//@ statement: it was cancelled; the token, the passed-in result and the timer are cleaned up; exactly one yield
#[kani::proof]
#[kani::stub(crate::scheduler::get_scheduler, sup::get_scheduler_stub)]
#[kani::stub(crate::scheduler::Scheduler::schedule, sup::schedule_stub)]
#[kani::stub(crate::scheduler::Scheduler::add_timer, tl::add_timer_stub)]
#[kani::stub(crate::scheduler::Scheduler::del_timer, tl::del_timer_stub)]
#[kani::stub(crate::coroutine_impl::run_coroutine, sup::run_coroutine_stub)]
#[kani::stub(crate::cancel::trigger_cancel_panic, sup::cancel_panic_stub)]
#[kani::stub(<crate::park::Park as std::ops::Drop>::drop, sup::park_drop_noop)]
#[kani::stub(crate::yield_now::set_co_para, sup::set_co_para_kind_only)]
#[kani::stub(generator::co_set_para, sup::co_set_para_kind_only)]
#[kani::unwind(3)]
fn c02_2_sched_4_b4_a0_untimed() {
    blocking_park::<4, 0, false>();
}

//@ obligation: C02.2.5
//@ tier: experimental
//@ kind: K3
//@ complete: yes
//@ functions: Park::park_timeout, Park::subscribe, Park::unpark_impl, Park::wake_up, Park::fast_wake_up, Park::remove_timeout_handle, Park::yield_back, yield_with, CancelImpl::cancel
//@ statement: schedule [cancel while parked]: a park that has to block (caller handles the cancel result); whenever at least one of them happened the coroutine is handed to the scheduler
//@ statement: exactly once (never lost, never twice); the park then returns Ok for an unpark alone, Timeout only if the timer fired, Canceled only if
//@ statement: it was cancelled; the token, the passed-in result and the timer are cleaned up; exactly one yield
#[kani::proof]
#[kani::stub(crate::scheduler::get_scheduler, sup::get_scheduler_stub)]
#[kani::stub(crate::scheduler::Scheduler::schedule, sup::schedule_stub)]
#[kani::stub(crate::scheduler::Scheduler::add_timer, tl::add_timer_stub)]
#[kani::stub(crate::scheduler::Scheduler::del_timer, tl::del_timer_stub)]
#[kani::stub(crate::coroutine_impl::run_coroutine, sup::run_coroutine_stub)]
#[kani::stub(crate::cancel::trigger_cancel_panic, sup::cancel_panic_stub)]
#[kani::stub(<crate::park::Park as std::ops::Drop>::drop, sup::park_drop_noop)]
#[kani::stub(crate::yield_now::set_co_para, sup::set_co_para_kind_only)]
#[kani::stub(generator::co_set_para, sup::co_set_para_kind_only)]
#[kani::unwind(3)]
fn c02_2_sched_5_b0_a4_untimed() {
    blocking_park::<0, 4, false>();
}

//@ obligation: C02.2.6
//@ tier: experimental
//@ kind: K3
//@ complete: yes
//@ functions: Park::park_timeout, Park::subscribe, Park::unpark_impl, Park::wake_up, Park::fast_wake_up, Park::remove_timeout_handle, Park::yield_back, yield_with, CancelImpl::cancel
//@ statement: schedule [cancel while parked with a timer armed]: a park that has to block (caller handles the cancel result); whenever at least one of them happened the coroutine is handed to the scheduler
//@ statement: exactly once (never lost, never twice); the park then returns Ok for an unpark alone, Timeout only if the timer fired, Canceled only if
//@ statement: it was cancelled; the token, the passed-in result and the timer are cleaned up; exactly one yield
#[kani::proof]
#[kani::stub(crate::scheduler::get_scheduler, sup::get_scheduler_stub)]
#[kani::stub(crate::scheduler::Scheduler::schedule, sup::schedule_stub)]
#[kani::stub(crate::scheduler::Scheduler::add_timer, tl::add_timer_stub)]
#[kani::stub(crate::scheduler::Scheduler::del_timer, tl::del_timer_stub)]
#[kani::stub(crate::coroutine_impl::run_coroutine, sup::run_coroutine_stub)]
#[kani::stub(crate::cancel::trigger_cancel_panic, sup::cancel_panic_stub)]
#[kani::stub(<crate::park::Park as std::ops::Drop>::drop, sup::park_drop_noop)]
#[kani::stub(crate::yield_now::set_co_para, sup::set_co_para_kind_only)]
#[kani::stub(generator::co_set_para, sup::co_set_para_kind_only)]
#[kani::unwind(3)]
fn c02_2_sched_6_b0_a4_timed() {
    blocking_park::<0, 4, true>();
}

//@ obligation: C02.2.7
//@ tier: thorough
//@ timeout: 1500
//@ kind: K3
//@ complete: yes
//@ functions: Park::park_timeout, Park::subscribe, Park::unpark_impl, Park::wake_up, Park::fast_wake_up, Park::remove_timeout_handle, Park::yield_back, yield_with, CancelImpl::cancel
//@ statement: schedule [unpark before subscribe, timer armed]: a park that has to block (caller handles the cancel result); whenever at least one of them happened the coroutine is handed to the scheduler
//@ statement: exactly once (never lost, never twice); the park then returns Ok for an unpark alone, Timeout only if the timer fired, Canceled only if
//@ statement: it was cancelled; the token, the passed-in result and the timer are cleaned up; exactly one yield
#[kani::proof]
#[kani::stub(crate::scheduler::get_scheduler, sup::get_scheduler_stub)]
#[kani::stub(crate::scheduler::Scheduler::schedule, sup::schedule_stub)]
#[kani::stub(crate::scheduler::Scheduler::add_timer, tl::add_timer_stub)]
#[kani::stub(crate::scheduler::Scheduler::del_timer, tl::del_timer_stub)]
#[kani::stub(crate::coroutine_impl::run_coroutine, sup::run_coroutine_stub)]
#[kani::stub(crate::cancel::trigger_cancel_panic, sup::cancel_panic_stub)]
#[kani::stub(<crate::park::Park as std::ops::Drop>::drop, sup::park_drop_noop)]
#[kani::stub(crate::yield_now::set_co_para, sup::set_co_para_kind_only)]
#[kani::stub(generator::co_set_para, sup::co_set_para_kind_only)]
#[kani::unwind(3)]
fn c02_2_sched_7_b1_a2_timed() {
    blocking_park::<1, 2, true>();
}

//@ obligation: C02.2.8
//@ tier: experimental
//@ kind: K3
//@ complete: yes
//@ functions: Park::park_timeout, Park::subscribe, Park::unpark_impl, Park::wake_up, Park::fast_wake_up, Park::remove_timeout_handle, Park::yield_back, yield_with, CancelImpl::cancel
//@ statement: schedule [unpark and cancel before subscribe]: a park that has to block (caller handles the cancel result); whenever at least one of them happened the coroutine is handed to the scheduler
//@ statement: exactly once (never lost, never twice); the park then returns Ok for an unpark alone, Timeout only if the timer fired, Canceled only if
//@ statement: it was cancelled; the token, the passed-in result and the timer are cleaned up; exactly one yield
#[kani::proof]
#[kani::stub(crate::scheduler::get_scheduler, sup::get_scheduler_stub)]
#[kani::stub(crate::scheduler::Scheduler::schedule, sup::schedule_stub)]
#[kani::stub(crate::scheduler::Scheduler::add_timer, tl::add_timer_stub)]
#[kani::stub(crate::scheduler::Scheduler::del_timer, tl::del_timer_stub)]
#[kani::stub(crate::coroutine_impl::run_coroutine, sup::run_coroutine_stub)]
#[kani::stub(crate::cancel::trigger_cancel_panic, sup::cancel_panic_stub)]
#[kani::stub(<crate::park::Park as std::ops::Drop>::drop, sup::park_drop_noop)]
#[kani::stub(crate::yield_now::set_co_para, sup::set_co_para_kind_only)]
#[kani::stub(generator::co_set_para, sup::co_set_para_kind_only)]
#[kani::unwind(3)]
fn c02_2_sched_8_b5_a0_untimed() {
    blocking_park::<5, 0, false>();
}

//@ obligation: C02.2.9
//@ tier: experimental
//@ kind: K3
//@ complete: yes
//@ functions: Park::park_timeout, Park::subscribe, Park::unpark_impl, Park::wake_up, Park::fast_wake_up, Park::remove_timeout_handle, Park::yield_back, yield_with, CancelImpl::cancel
//@ statement: schedule [unpark and timer expiry both after subscribe]: a park that has to block (caller handles the cancel result); whenever at least one of them happened the coroutine is handed to the scheduler
//@ statement: exactly once (never lost, never twice); the park then returns Ok for an unpark alone, Timeout only if the timer fired, Canceled only if
//@ statement: it was cancelled; the token, the passed-in result and the timer are cleaned up; exactly one yield
#[kani::proof]
#[kani::stub(crate::scheduler::get_scheduler, sup::get_scheduler_stub)]
#[kani::stub(crate::scheduler::Scheduler::schedule, sup::schedule_stub)]
#[kani::stub(crate::scheduler::Scheduler::add_timer, tl::add_timer_stub)]
#[kani::stub(crate::scheduler::Scheduler::del_timer, tl::del_timer_stub)]
#[kani::stub(crate::coroutine_impl::run_coroutine, sup::run_coroutine_stub)]
#[kani::stub(crate::cancel::trigger_cancel_panic, sup::cancel_panic_stub)]
#[kani::stub(<crate::park::Park as std::ops::Drop>::drop, sup::park_drop_noop)]
#[kani::stub(crate::yield_now::set_co_para, sup::set_co_para_kind_only)]
#[kani::stub(generator::co_set_para, sup::co_set_para_kind_only)]
#[kani::unwind(3)]
fn c02_2_sched_9_b0_a3_timed() {
    blocking_park::<0, 3, true>();
}

//@ obligation: C02.2.10
//@ tier: experimental
//@ kind: K3
//@ complete: yes
//@ functions: Park::park_timeout, Park::subscribe, Park::unpark_impl, Park::wake_up, Park::fast_wake_up, Park::remove_timeout_handle, Park::yield_back, yield_with, CancelImpl::cancel
//@ statement: schedule [unpark and cancel both after subscribe]: a park that has to block (caller handles the cancel result); whenever at least one of them happened the coroutine is handed to the scheduler
//@ statement: exactly once (never lost, never twice); the park then returns Ok for an unpark alone, Timeout only if the timer fired, Canceled only if
//@ statement: it was cancelled; the token, the passed-in result and the timer are cleaned up; exactly one yield
#[kani::proof]
#[kani::stub(crate::scheduler::get_scheduler, sup::get_scheduler_stub)]
#[kani::stub(crate::scheduler::Scheduler::schedule, sup::schedule_stub)]
#[kani::stub(crate::scheduler::Scheduler::add_timer, tl::add_timer_stub)]
#[kani::stub(crate::scheduler::Scheduler::del_timer, tl::del_timer_stub)]
#[kani::stub(crate::coroutine_impl::run_coroutine, sup::run_coroutine_stub)]
#[kani::stub(crate::cancel::trigger_cancel_panic, sup::cancel_panic_stub)]
#[kani::stub(<crate::park::Park as std::ops::Drop>::drop, sup::park_drop_noop)]
#[kani::stub(crate::yield_now::set_co_para, sup::set_co_para_kind_only)]
#[kani::stub(generator::co_set_para, sup::co_set_para_kind_only)]
#[kani::unwind(3)]
fn c02_2_sched_10_b0_a5_untimed() {
    blocking_park::<0, 5, false>();
}

fn c02_3a_at_panic() {
    kani::cover!(true, "cancel panic raised by park");
    let ev = unsafe { EVENTS_BEFORE | EVENTS_AFTER };
    assert!(ev & 4 != 0 || unsafe { PRE_CANCELLED }, "[C09.3-panic-needs-cancel] the cancel panic was raised in a coroutine nobody cancelled");
    assert!(!sup::current_para_is_some(), "[C15.3-result-consumed-before-panic] the passed-in result is consumed before the cancel panic");
}
static mut PRE_CANCELLED: bool = false;

fn cancel_aware_park<const PRE: bool, const BEFORE: u8, const AFTER: u8>() {
    let p = setup(BEFORE, AFTER, false);
    let pre: bool = PRE;
    unsafe {
        PRE_CANCELLED = pre;
        sup::ON_CANCEL_PANIC = Some(c02_3a_at_panic);
    }
    if pre {
        sup::cancel_of(unsafe { CO.unwrap() }).vk_set_cancel_bit();
    }
    let r = p.park_timeout(None);
    // returned normally: nobody cancelled
    let ev = unsafe { EVENTS_BEFORE | EVENTS_AFTER };
    assert!(!pre, "[C09.3-precancelled-panics] an already cancelled coroutine must not return from park normally");
    assert!(ev & 4 == 0, "[C09.3-cancelled-panics] a coroutine cancelled while parked must not return from park normally");
    assert!(r.is_ok() && ev == 1, "[C02.3-normal-return] without cancel the park returns Ok after an unpark");
    sup::leave_coroutine();
}


//@ obligation: C02.3.0
//@ tier: experimental
//@ property: C02 C09
//@ kind: K3
//@ complete: yes
//@ functions: Park::park_timeout, Park::subscribe, Park::yield_back, yield_with, CancelImpl::check_cancel, CancelImpl::cancel
//@ statement: schedule [already cancelled before the park]: coroutine::park flavour (cancellation checked inside the park): an already cancelled coroutine does not yield at all and the cancel
//@ statement: panic is raised; a coroutine cancelled while parked is resumed exactly once and the panic is raised after resume; a coroutine nobody
//@ statement: cancelled never sees the panic and its park returns normally
#[kani::proof]
#[kani::stub(crate::scheduler::get_scheduler, sup::get_scheduler_stub)]
#[kani::stub(crate::scheduler::Scheduler::schedule, sup::schedule_stub)]
#[kani::stub(crate::scheduler::Scheduler::add_timer, tl::add_timer_stub)]
#[kani::stub(crate::scheduler::Scheduler::del_timer, tl::del_timer_stub)]
#[kani::stub(crate::coroutine_impl::run_coroutine, sup::run_coroutine_stub)]
#[kani::stub(crate::cancel::trigger_cancel_panic, sup::cancel_panic_stub)]
#[kani::stub(<crate::park::Park as std::ops::Drop>::drop, sup::park_drop_noop)]
#[kani::stub(crate::yield_now::set_co_para, sup::set_co_para_kind_only)]
#[kani::stub(generator::co_set_para, sup::co_set_para_kind_only)]
#[kani::unwind(3)]
fn c02_3_case_0() {
    cancel_aware_park::<true, 0, 0>();
}

//@ obligation: C02.3.1
//@ tier: experimental
//@ property: C02 C09
//@ kind: K3
//@ complete: yes
//@ functions: Park::park_timeout, Park::subscribe, Park::yield_back, yield_with, CancelImpl::check_cancel, CancelImpl::cancel
//@ statement: schedule [cancelled while parked]: coroutine::park flavour (cancellation checked inside the park): an already cancelled coroutine does not yield at all and the cancel
//@ statement: panic is raised; a coroutine cancelled while parked is resumed exactly once and the panic is raised after resume; a coroutine nobody
//@ statement: cancelled never sees the panic and its park returns normally
#[kani::proof]
#[kani::stub(crate::scheduler::get_scheduler, sup::get_scheduler_stub)]
#[kani::stub(crate::scheduler::Scheduler::schedule, sup::schedule_stub)]
#[kani::stub(crate::scheduler::Scheduler::add_timer, tl::add_timer_stub)]
#[kani::stub(crate::scheduler::Scheduler::del_timer, tl::del_timer_stub)]
#[kani::stub(crate::coroutine_impl::run_coroutine, sup::run_coroutine_stub)]
#[kani::stub(crate::cancel::trigger_cancel_panic, sup::cancel_panic_stub)]
#[kani::stub(<crate::park::Park as std::ops::Drop>::drop, sup::park_drop_noop)]
#[kani::stub(crate::yield_now::set_co_para, sup::set_co_para_kind_only)]
#[kani::stub(generator::co_set_para, sup::co_set_para_kind_only)]
#[kani::unwind(3)]
fn c02_3_case_1() {
    cancel_aware_park::<false, 0, 4>();
}

//@ obligation: C02.3.2
//@ tier: experimental
//@ property: C02 C09
//@ kind: K3
//@ complete: yes
//@ functions: Park::park_timeout, Park::subscribe, Park::yield_back, yield_with, CancelImpl::check_cancel, CancelImpl::cancel
//@ statement: schedule [cancelled in the window before the worker subscribes]: coroutine::park flavour (cancellation checked inside the park): an already cancelled coroutine does not yield at all and the cancel
//@ statement: panic is raised; a coroutine cancelled while parked is resumed exactly once and the panic is raised after resume; a coroutine nobody
//@ statement: cancelled never sees the panic and its park returns normally
#[kani::proof]
#[kani::stub(crate::scheduler::get_scheduler, sup::get_scheduler_stub)]
#[kani::stub(crate::scheduler::Scheduler::schedule, sup::schedule_stub)]
#[kani::stub(crate::scheduler::Scheduler::add_timer, tl::add_timer_stub)]
#[kani::stub(crate::scheduler::Scheduler::del_timer, tl::del_timer_stub)]
#[kani::stub(crate::coroutine_impl::run_coroutine, sup::run_coroutine_stub)]
#[kani::stub(crate::cancel::trigger_cancel_panic, sup::cancel_panic_stub)]
#[kani::stub(<crate::park::Park as std::ops::Drop>::drop, sup::park_drop_noop)]
#[kani::stub(crate::yield_now::set_co_para, sup::set_co_para_kind_only)]
#[kani::stub(generator::co_set_para, sup::co_set_para_kind_only)]
#[kani::unwind(3)]
fn c02_3_case_2() {
    cancel_aware_park::<false, 4, 0>();
}

//@ obligation: C02.3.3
//@ tier: experimental
//@ property: C02 C09
//@ kind: K3
//@ complete: yes
//@ functions: Park::park_timeout, Park::subscribe, Park::yield_back, yield_with, CancelImpl::check_cancel, CancelImpl::cancel
//@ statement: schedule [not cancelled: unparked]: coroutine::park flavour (cancellation checked inside the park): an already cancelled coroutine does not yield at all and the cancel
//@ statement: panic is raised; a coroutine cancelled while parked is resumed exactly once and the panic is raised after resume; a coroutine nobody
//@ statement: cancelled never sees the panic and its park returns normally
#[kani::proof]
#[kani::stub(crate::scheduler::get_scheduler, sup::get_scheduler_stub)]
#[kani::stub(crate::scheduler::Scheduler::schedule, sup::schedule_stub)]
#[kani::stub(crate::scheduler::Scheduler::add_timer, tl::add_timer_stub)]
#[kani::stub(crate::scheduler::Scheduler::del_timer, tl::del_timer_stub)]
#[kani::stub(crate::coroutine_impl::run_coroutine, sup::run_coroutine_stub)]
#[kani::stub(crate::cancel::trigger_cancel_panic, sup::cancel_panic_stub)]
#[kani::stub(<crate::park::Park as std::ops::Drop>::drop, sup::park_drop_noop)]
#[kani::stub(crate::yield_now::set_co_para, sup::set_co_para_kind_only)]
#[kani::stub(generator::co_set_para, sup::co_set_para_kind_only)]
#[kani::unwind(3)]
fn c02_3_case_3() {
    cancel_aware_park::<false, 0, 1>();
}

//@ obligation: C02.canary
//@ kind: K3
//@ canary: yes
//@ functions: Park::park_timeout
//@ statement: canary — claims a blocking park is never resumed; must FAIL
#[kani::proof]
#[kani::stub(crate::scheduler::get_scheduler, sup::get_scheduler_stub)]
#[kani::stub(crate::scheduler::Scheduler::schedule, sup::schedule_stub)]
#[kani::stub(crate::scheduler::Scheduler::add_timer, tl::add_timer_stub)]
#[kani::stub(crate::scheduler::Scheduler::del_timer, tl::del_timer_stub)]
#[kani::stub(crate::coroutine_impl::run_coroutine, sup::run_coroutine_stub)]
#[kani::stub(crate::cancel::trigger_cancel_panic, sup::cancel_panic_stub)]
#[kani::stub(<crate::park::Park as std::ops::Drop>::drop, sup::park_drop_noop)]
#[kani::stub(crate::yield_now::set_co_para, sup::set_co_para_kind_only)]
#[kani::stub(generator::co_set_para, sup::co_set_para_kind_only)]
#[kani::unwind(3)]
fn c02_canary() {
    let p = setup(1, 0, true);
    let _ = p.park_timeout(None);
    assert!(false, "[C02.canary] canary (expected to fail)");
}

//@ obligation: C02.4a
//@ kind: K3
//@ complete: yes
//@ functions: Park::unpark_impl, Park::wake_up
//@ statement: unpark on a handle whose coroutine is registered (parked): the first unpark takes the coroutine and hands it to the scheduler exactly
//@ statement: once — queued for Blocker::unpark, run at once for FastBlocker — and leaves the token set; a second unpark finds the token set and
//@ statement: neither takes nor schedules anything
#[kani::proof]
#[kani::stub(crate::scheduler::get_scheduler, sup::get_scheduler_stub)]
#[kani::stub(crate::scheduler::Scheduler::schedule, sup::schedule_stub)]
#[kani::stub(crate::coroutine_impl::run_coroutine, sup::run_coroutine_stub)]
#[kani::stub(<crate::park::Park as std::ops::Drop>::drop, sup::park_drop_noop)]
#[kani::unwind(3)]
fn c02_4a_unpark_takes_and_schedules_once() {
    sup::trace_reset();
    sup::scheduler_reset();
    let p: &'static Park = Box::leak(Box::new(Park::new()));
    let co: CoroutineImpl = generator::shim_new_empty(0x1000);
    let id = co.shim_id();
    p.wait_co.store(co);
    let sync: bool = kani::any();
    p.unpark_impl(sync);
    assert!(resumptions() == 1, "[C02.4-wake-once] the first unpark hands the parked coroutine to the scheduler exactly once");
    assert!(p.state.load(Ordering::Acquire), "[C02.4-token-set] unpark leaves the token set");
    let handed = sup::resumed_id();
    assert!(handed == Some(id), "[C02.4-same-coroutine] the coroutine handed over is the one that was parked");
    p.unpark_impl(sync);
    p.unpark();
    assert!(resumptions() == 1, "[C02.4-idempotent] further unparks neither take nor schedule anything");
    assert!(p.wait_co.take().is_none(), "[C02.4-taken] the parked coroutine was taken out of the slot");
}

//@ obligation: C02.5a
//@ kind: K2
//@ complete: yes
//@ functions: AtomicOption::store, AtomicOption::take, AtomicOption::clear
//@ statement: the single-taker slot every waker goes through: store; take; take yields Some then None (whoever takes first resumes the coroutine,
//@ statement: everybody else gets nothing); clear empties it
#[kani::proof]
#[kani::unwind(3)]
fn c02_5a_single_taker_slot() {
    let slot: AtomicOption<CoroutineImpl> = AtomicOption::none();
    assert!(slot.take().is_none(), "[C02.5-empty] an empty slot yields nothing");
    let co: CoroutineImpl = generator::shim_new_empty(0x1000);
    let id = co.shim_id();
    slot.store(co);
    let a = slot.take();
    let b = slot.take();
    assert!(a.as_ref().map(|c| c.shim_id()) == Some(id) && b.is_none(), "[C02.5-take-once] the first take gets the coroutine, the second gets nothing");
    slot.store(a.unwrap());
    slot.clear();
    assert!(slot.take().is_none(), "[C02.5-clear] clear empties the slot");
}

/// `Park::subscribe` called directly (the worker side of a park), from a concrete pre-state
fn subscribe_direct<const TOKEN: bool, const CANCELLED: bool, const TIMED: bool>() {
    sup::trace_reset();
    sup::scheduler_reset();
    tl::timers_reset();
    let handle = sup::enter_coroutine();
    let p: &'static Park = Box::leak(Box::new(Park::new()));
    let mut co: CoroutineImpl = generator::shim_new_empty(0x1000);
    co.set_local_data(unsafe { generator::ghost::CUR_LOCAL });
    let id = co.shim_id();
    let d = Duration::from_millis(9);
    if TIMED {
        p.timeout.store(Some(d));
    }
    if TOKEN {
        p.state.store(true, Ordering::Release);
    }
    if CANCELLED {
        sup::cancel_of(handle).vk_set_cancel_bit();
    }
    EventSource::subscribe(unsafe { &mut *(p as *const Park as *mut Park) }, co);
    assert!(unsafe { tl::ADD_TIMERS } == if TIMED { 1 } else { 0 }, "[C02.2-timer-armed-iff] a timer is armed iff a time-out was stored");
    if TIMED {
        assert!(unsafe { tl::LAST_TIMER_DUR } == Some(d), "[C08.5-duration-unchanged] the stored duration reaches the timer unchanged");
        assert!(!p.timeout_handle.load(Ordering::Relaxed).is_null(), "[C02.2-handle-kept] the timer handle is kept for removal after resume");
    }
    assert!(p.timeout.take().is_none(), "[C02.2-timeout-consumed] the stored time-out is consumed by subscribe");
    assert!(!p.wait_kernel.load(Ordering::Acquire), "[C02.2-kernel-flag] the in-kernel flag is cleared when subscribe returns");
    if TOKEN {
        assert!(resumptions() == 1, "[C02.2-recheck-token] a token that arrived before the registration makes subscribe resume the coroutine itself, once");
        assert!(sup::resumed_id() == Some(id) && p.wait_co.take().is_none(), "[C02.2-recheck-token] a token that arrived before the registration makes subscribe resume the coroutine itself, once");
    } else if CANCELLED {
        assert!(resumptions() == 1, "[C09.3-recheck-cancel] a cancel that arrived before the registration makes subscribe reschedule the coroutine, once");
        let r = sup::resumed_ref().unwrap();
        assert!(r.shim_id() == id && r.shim_peek_para().map(|e| e.kind()) == Some(std::io::ErrorKind::Other), "[C09.2-cancel-result] the cancelled coroutine is rescheduled with the Canceled result");
        assert!(p.wait_co.take().is_none(), "[C02.5-taken] the rescheduled coroutine was taken out of the slot");
    } else {
        assert!(resumptions() == 0, "[C02.2-stays-parked] without token and cancel the coroutine stays parked");
        assert!(sup::cancel_of(handle).vk_co_registered(), "[C09.3-registered] the parked coroutine is registered with its Cancel object");
        let parked = p.wait_co.take();
        assert!(parked.as_ref().map(|c| c.shim_id()) == Some(id), "[C02.2-registered] the parked coroutine sits in the wake slot");
        std::mem::forget(parked);
    }
    sup::leave_coroutine();
}

//@ obligation: C02.8a
//@ property: C02 C09
//@ kind: K3
//@ complete: yes
//@ functions: Park::subscribe, Park::fast_wake_up
//@ statement: subscribe with the token already set (unpark raced ahead of the registration): the coroutine is resumed by subscribe itself, exactly once
#[kani::proof]
#[kani::stub(crate::scheduler::get_scheduler, sup::get_scheduler_stub)]
#[kani::stub(crate::scheduler::Scheduler::schedule, sup::schedule_stub)]
#[kani::stub(crate::scheduler::Scheduler::add_timer, tl::add_timer_stub)]
#[kani::stub(crate::scheduler::Scheduler::del_timer, tl::del_timer_stub)]
#[kani::stub(crate::coroutine_impl::run_coroutine, sup::run_coroutine_stub)]
#[kani::stub(<crate::park::Park as std::ops::Drop>::drop, sup::park_drop_noop)]
#[kani::stub(crate::yield_now::set_co_para, sup::set_co_para_kind_only)]
#[kani::unwind(3)]
fn c02_8a_subscribe_token_first() {
    subscribe_direct::<true, false, true>();
}

//@ obligation: C02.8b
//@ property: C02 C09
//@ kind: K3
//@ complete: yes
//@ functions: Park::subscribe, CancelImpl::set_co, CancelImpl::cancel
//@ statement: subscribe of an already cancelled coroutine: it registers with the Cancel object, re-checks the cancel bit and reschedules the coroutine once with the Canceled result
#[kani::proof]
#[kani::stub(crate::scheduler::get_scheduler, sup::get_scheduler_stub)]
#[kani::stub(crate::scheduler::Scheduler::schedule, sup::schedule_stub)]
#[kani::stub(crate::scheduler::Scheduler::add_timer, tl::add_timer_stub)]
#[kani::stub(crate::scheduler::Scheduler::del_timer, tl::del_timer_stub)]
#[kani::stub(crate::coroutine_impl::run_coroutine, sup::run_coroutine_stub)]
#[kani::stub(<crate::park::Park as std::ops::Drop>::drop, sup::park_drop_noop)]
#[kani::stub(crate::yield_now::set_co_para, sup::set_co_para_kind_only)]
#[kani::unwind(3)]
fn c02_8b_subscribe_cancelled_first() {
    subscribe_direct::<false, true, false>();
}

//@ obligation: C02.8c
//@ property: C02 C09
//@ kind: K3
//@ complete: yes
//@ functions: Park::subscribe, CancelImpl::set_co
//@ statement: subscribe without token and cancel: the timer is armed with the stored duration, the coroutine sits in the wake slot and is registered with its Cancel object; nothing is scheduled
#[kani::proof]
#[kani::stub(crate::scheduler::get_scheduler, sup::get_scheduler_stub)]
#[kani::stub(crate::scheduler::Scheduler::schedule, sup::schedule_stub)]
#[kani::stub(crate::scheduler::Scheduler::add_timer, tl::add_timer_stub)]
#[kani::stub(crate::scheduler::Scheduler::del_timer, tl::del_timer_stub)]
#[kani::stub(crate::coroutine_impl::run_coroutine, sup::run_coroutine_stub)]
#[kani::stub(<crate::park::Park as std::ops::Drop>::drop, sup::park_drop_noop)]
#[kani::stub(crate::yield_now::set_co_para, sup::set_co_para_kind_only)]
#[kani::unwind(3)]
fn c02_8c_subscribe_parks() {
    subscribe_direct::<false, false, true>();
}

/// after `subscribe_direct::<false, false, TIMED>` left the coroutine parked: a first waker, then a second one
fn wakers_after_parked<const FIRST: u8, const SECOND: u8, const TIMED: bool>() {
    sup::trace_reset();
    sup::scheduler_reset();
    tl::timers_reset();
    let handle = sup::enter_coroutine();
    let p: &'static Park = Box::leak(Box::new(Park::new()));
    let mut co: CoroutineImpl = generator::shim_new_empty(0x1000);
    co.set_local_data(unsafe { generator::ghost::CUR_LOCAL });
    let id = co.shim_id();
    if TIMED {
        p.timeout.store(Some(Duration::from_millis(9)));
    }
    EventSource::subscribe(unsafe { &mut *(p as *const Park as *mut Park) }, co);
    assert!(resumptions() == 0, "[C02.2-stays-parked] without token and cancel the coroutine stays parked");
    unsafe {
        PARK = p;
        CO = Some(handle);
    }
    let e1 = env_events(FIRST, TIMED);
    assert!(e1 == FIRST, "scripted event must be possible");
    assert!(resumptions() == 1, "[C02.2-no-lost-wakeup] an unpark / time-out / cancel happened but the parked coroutine was not handed to the scheduler: it sleeps forever");
    let resumed = unsafe {
        match sup::SCHEDULED.as_ref() {
            Some(c) => c,
            None => sup::RAN.as_ref().unwrap(),
        }
    };
    assert!(resumed.shim_id() == id, "[C02.4-same-coroutine] the coroutine handed over is the one that was parked");
    let kind = resumed.shim_peek_para().map(|e| e.kind());
    match FIRST {
        1 => assert!(kind.is_none(), "[C02.2-unpark-ok] an unpark resumes the coroutine without a result (park returns Ok)"),
        2 => assert!(kind == Some(std::io::ErrorKind::TimedOut), "[C02.2-timer-timeout] the timer resumes the coroutine with the TimedOut result"),
        _ => assert!(kind == Some(std::io::ErrorKind::Other), "[C09.2-cancel-result] cancel resumes the coroutine with the Canceled result"),
    }
    // a second waker finds nothing to take
    let _ = env_events(SECOND, TIMED);
    assert!(resumptions() == 1, "[C02.5-single-resumption] the parked coroutine was handed to the scheduler more than once");
    sup::leave_coroutine();
}

//@ obligation: C02.9.0
//@ property: C02 C09
//@ kind: K3
//@ complete: yes
//@ functions: Park::subscribe, Park::unpark_impl, Park::wake_up, CancelImpl::cancel, timer expiry handler (modelled copy)
//@ statement: a coroutine parked by the real subscribe, then [unpark] followed by [unpark]: the first waker takes the coroutine out of the
//@ statement: shared slot and hands it to the scheduler exactly once with the matching result; the second waker finds the slot empty and does nothing
#[kani::proof]
#[kani::stub(crate::scheduler::get_scheduler, sup::get_scheduler_stub)]
#[kani::stub(crate::scheduler::Scheduler::schedule, sup::schedule_stub)]
#[kani::stub(crate::scheduler::Scheduler::add_timer, tl::add_timer_stub)]
#[kani::stub(crate::scheduler::Scheduler::del_timer, tl::del_timer_stub)]
#[kani::stub(crate::coroutine_impl::run_coroutine, sup::run_coroutine_stub)]
#[kani::stub(<crate::park::Park as std::ops::Drop>::drop, sup::park_drop_noop)]
#[kani::stub(crate::yield_now::set_co_para, sup::set_co_para_kind_only)]
#[kani::unwind(3)]
fn c02_9_unpark_then_unpark() {
    wakers_after_parked::<1, 1, false>();
}

//@ obligation: C02.9.1
//@ property: C02 C09
//@ kind: K3
//@ complete: yes
//@ functions: Park::subscribe, Park::unpark_impl, Park::wake_up, CancelImpl::cancel, timer expiry handler (modelled copy)
//@ statement: a coroutine parked by the real subscribe, then [unpark] followed by [timer]: the first waker takes the coroutine out of the
//@ statement: shared slot and hands it to the scheduler exactly once with the matching result; the second waker finds the slot empty and does nothing
#[kani::proof]
#[kani::stub(crate::scheduler::get_scheduler, sup::get_scheduler_stub)]
#[kani::stub(crate::scheduler::Scheduler::schedule, sup::schedule_stub)]
#[kani::stub(crate::scheduler::Scheduler::add_timer, tl::add_timer_stub)]
#[kani::stub(crate::scheduler::Scheduler::del_timer, tl::del_timer_stub)]
#[kani::stub(crate::coroutine_impl::run_coroutine, sup::run_coroutine_stub)]
#[kani::stub(<crate::park::Park as std::ops::Drop>::drop, sup::park_drop_noop)]
#[kani::stub(crate::yield_now::set_co_para, sup::set_co_para_kind_only)]
#[kani::unwind(3)]
fn c02_9_unpark_then_timer() {
    wakers_after_parked::<1, 2, true>();
}

//@ obligation: C02.9.2
//@ property: C02 C09
//@ kind: K3
//@ complete: yes
//@ functions: Park::subscribe, Park::unpark_impl, Park::wake_up, CancelImpl::cancel, timer expiry handler (modelled copy)
//@ statement: a coroutine parked by the real subscribe, then [unpark] followed by [cancel]: the first waker takes the coroutine out of the
//@ statement: shared slot and hands it to the scheduler exactly once with the matching result; the second waker finds the slot empty and does nothing
#[kani::proof]
#[kani::stub(crate::scheduler::get_scheduler, sup::get_scheduler_stub)]
#[kani::stub(crate::scheduler::Scheduler::schedule, sup::schedule_stub)]
#[kani::stub(crate::scheduler::Scheduler::add_timer, tl::add_timer_stub)]
#[kani::stub(crate::scheduler::Scheduler::del_timer, tl::del_timer_stub)]
#[kani::stub(crate::coroutine_impl::run_coroutine, sup::run_coroutine_stub)]
#[kani::stub(<crate::park::Park as std::ops::Drop>::drop, sup::park_drop_noop)]
#[kani::stub(crate::yield_now::set_co_para, sup::set_co_para_kind_only)]
#[kani::unwind(3)]
fn c02_9_unpark_then_cancel() {
    wakers_after_parked::<1, 4, false>();
}

//@ obligation: C02.9.3
//@ property: C02 C09
//@ kind: K3
//@ complete: yes
//@ functions: Park::subscribe, Park::unpark_impl, Park::wake_up, CancelImpl::cancel, timer expiry handler (modelled copy)
//@ statement: a coroutine parked by the real subscribe, then [timer] followed by [unpark]: the first waker takes the coroutine out of the
//@ statement: shared slot and hands it to the scheduler exactly once with the matching result; the second waker finds the slot empty and does nothing
#[kani::proof]
#[kani::stub(crate::scheduler::get_scheduler, sup::get_scheduler_stub)]
#[kani::stub(crate::scheduler::Scheduler::schedule, sup::schedule_stub)]
#[kani::stub(crate::scheduler::Scheduler::add_timer, tl::add_timer_stub)]
#[kani::stub(crate::scheduler::Scheduler::del_timer, tl::del_timer_stub)]
#[kani::stub(crate::coroutine_impl::run_coroutine, sup::run_coroutine_stub)]
#[kani::stub(<crate::park::Park as std::ops::Drop>::drop, sup::park_drop_noop)]
#[kani::stub(crate::yield_now::set_co_para, sup::set_co_para_kind_only)]
#[kani::unwind(3)]
fn c02_9_timer_then_unpark() {
    wakers_after_parked::<2, 1, true>();
}

//@ obligation: C02.9.4
//@ property: C02 C09
//@ kind: K3
//@ complete: yes
//@ functions: Park::subscribe, Park::unpark_impl, Park::wake_up, CancelImpl::cancel, timer expiry handler (modelled copy)
//@ statement: a coroutine parked by the real subscribe, then [timer] followed by [cancel]: the first waker takes the coroutine out of the
//@ statement: shared slot and hands it to the scheduler exactly once with the matching result; the second waker finds the slot empty and does nothing
#[kani::proof]
#[kani::stub(crate::scheduler::get_scheduler, sup::get_scheduler_stub)]
#[kani::stub(crate::scheduler::Scheduler::schedule, sup::schedule_stub)]
#[kani::stub(crate::scheduler::Scheduler::add_timer, tl::add_timer_stub)]
#[kani::stub(crate::scheduler::Scheduler::del_timer, tl::del_timer_stub)]
#[kani::stub(crate::coroutine_impl::run_coroutine, sup::run_coroutine_stub)]
#[kani::stub(<crate::park::Park as std::ops::Drop>::drop, sup::park_drop_noop)]
#[kani::stub(crate::yield_now::set_co_para, sup::set_co_para_kind_only)]
#[kani::unwind(3)]
fn c02_9_timer_then_cancel() {
    wakers_after_parked::<2, 4, true>();
}

//@ obligation: C02.9.5
//@ property: C02 C09
//@ kind: K3
//@ complete: yes
//@ functions: Park::subscribe, Park::unpark_impl, Park::wake_up, CancelImpl::cancel, timer expiry handler (modelled copy)
//@ statement: a coroutine parked by the real subscribe, then [cancel] followed by [unpark]: the first waker takes the coroutine out of the
//@ statement: shared slot and hands it to the scheduler exactly once with the matching result; the second waker finds the slot empty and does nothing
#[kani::proof]
#[kani::stub(crate::scheduler::get_scheduler, sup::get_scheduler_stub)]
#[kani::stub(crate::scheduler::Scheduler::schedule, sup::schedule_stub)]
#[kani::stub(crate::scheduler::Scheduler::add_timer, tl::add_timer_stub)]
#[kani::stub(crate::scheduler::Scheduler::del_timer, tl::del_timer_stub)]
#[kani::stub(crate::coroutine_impl::run_coroutine, sup::run_coroutine_stub)]
#[kani::stub(<crate::park::Park as std::ops::Drop>::drop, sup::park_drop_noop)]
#[kani::stub(crate::yield_now::set_co_para, sup::set_co_para_kind_only)]
#[kani::unwind(3)]
fn c02_9_cancel_then_unpark() {
    wakers_after_parked::<4, 1, false>();
}

//@ obligation: C02.9.6
//@ property: C02 C09
//@ kind: K3
//@ complete: yes
//@ functions: Park::subscribe, Park::unpark_impl, Park::wake_up, CancelImpl::cancel, timer expiry handler (modelled copy)
//@ statement: a coroutine parked by the real subscribe, then [cancel] followed by [timer]: the first waker takes the coroutine out of the
//@ statement: shared slot and hands it to the scheduler exactly once with the matching result; the second waker finds the slot empty and does nothing
#[kani::proof]
#[kani::stub(crate::scheduler::get_scheduler, sup::get_scheduler_stub)]
#[kani::stub(crate::scheduler::Scheduler::schedule, sup::schedule_stub)]
#[kani::stub(crate::scheduler::Scheduler::add_timer, tl::add_timer_stub)]
#[kani::stub(crate::scheduler::Scheduler::del_timer, tl::del_timer_stub)]
#[kani::stub(crate::coroutine_impl::run_coroutine, sup::run_coroutine_stub)]
#[kani::stub(<crate::park::Park as std::ops::Drop>::drop, sup::park_drop_noop)]
#[kani::stub(crate::yield_now::set_co_para, sup::set_co_para_kind_only)]
#[kani::unwind(3)]
fn c02_9_cancel_then_timer() {
    wakers_after_parked::<4, 2, true>();
}

static mut YIELD_RESULT: u8 = 0; // 0 none, 1 TimedOut, 2 Other
static mut YIELD_CALLS: usize = 0;
static mut TIMEOUT_AT_YIELD: Option<Duration> = None;
/// contract of `yield_with(&park)` (C02.8/C02.9): the coroutine was suspended and resumed; the resumer may have
/// left a result; a timer handle may be installed; an unpark may have set the token again
fn yield_with_contract<T: EventSource>(_r: &T) {
    unsafe {
        YIELD_CALLS += 1;
        let p = &*PARK;
        TIMEOUT_AT_YIELD = p.timeout.take();
        if let Some(d) = TIMEOUT_AT_YIELD {
            // what subscribe does with it
            let h = tl::add_timer_stub(sup::get_scheduler_stub(), d, p.wait_co.clone());
            p.set_timeout_handle(Some(h));
        }
        if kani::any() {
            p.state.store(true, Ordering::Release);
        }
        match YIELD_RESULT {
            1 => sup::set_current_para(Some(std::io::Error::from(std::io::ErrorKind::TimedOut))),
            2 => sup::set_current_para(Some(std::io::Error::from(std::io::ErrorKind::Other))),
            _ => {}
        }
    }
}

//@ obligation: C02.10
//@ property: C02 C08 C15 C09 C18
//@ kind: K1
//@ complete: yes
//@ functions: Park::park_timeout, Park::check_park, Park::remove_timeout_handle, Park::set_timeout_handle
//@ statement: park_timeout around the suspension (yield_with replaced by its contract): without token it stores exactly the caller's time-out and
//@ statement: yields once; after resume the result maps as: no passed-in result => Ok, TimedOut => Timeout, Other => Canceled; on every path the token
//@ statement: is cleared, the passed-in result is consumed, and the timer handle is taken out and handed to del_timer iff it is still linked
#[kani::proof]
#[kani::stub(crate::scheduler::get_scheduler, sup::get_scheduler_stub)]
#[kani::stub(crate::scheduler::Scheduler::schedule, sup::schedule_stub)]
#[kani::stub(crate::scheduler::Scheduler::add_timer, tl::add_timer_stub)]
#[kani::stub(crate::scheduler::Scheduler::del_timer, tl::del_timer_stub)]
#[kani::stub(crate::coroutine_impl::run_coroutine, sup::run_coroutine_stub)]
#[kani::stub(<crate::park::Park as std::ops::Drop>::drop, sup::park_drop_noop)]
#[kani::stub(crate::yield_now::yield_with, yield_with_contract)]
#[kani::unwind(3)]
fn c02_10_park_timeout_around_the_yield() {
    sup::trace_reset();
    sup::scheduler_reset();
    tl::timers_reset();
    let _h = sup::enter_coroutine();
    let p: &'static Park = Box::leak(Box::new(Park::new()));
    let res: u8 = kani::any();
    kani::assume(res <= 2);
    unsafe {
        PARK = p;
        YIELD_RESULT = res;
        YIELD_CALLS = 0;
        TIMEOUT_AT_YIELD = None;
    }
    let timed: bool = kani::any();
    let secs: u64 = kani::any();
    kani::assume(secs < 1000);
    let d = Duration::from_secs(secs);
    let r = p.park_timeout(if timed { Some(d) } else { None });
    assert!(unsafe { YIELD_CALLS } == 1, "[C02.10-one-yield] a park without token yields exactly once");
    assert!(unsafe { TIMEOUT_AT_YIELD.is_some() } == timed, "[C02.10-timeout-stored] the caller's time-out is stored for subscribe iff one was given");
    if timed {
        let got = unsafe { TIMEOUT_AT_YIELD.unwrap() };
        assert!(got >= d && got - d < Duration::from_millis(1) || (secs == 0 && got == Duration::from_millis(1)), "[C08.5-duration-unchanged] the caller's duration reaches subscribe unchanged (within the 1 ms tick)");
    }
    match res {
        0 => assert!(r.is_ok(), "[C02.4-map-ok] no passed-in result means Ok"),
        1 => assert!(r == Err(ParkError::Timeout), "[C02.4-map-timeout] a TimedOut result means Timeout"),
        _ => assert!(r == Err(ParkError::Canceled), "[C02.4-map-canceled] an Other result means Canceled"),
    }
    assert!(!p.state.load(Ordering::Acquire), "[C02.4-token-cleared] the token is cleared after the park");
    assert!(!sup::current_para_is_some(), "[C15.3-result-consumed] the passed-in result is consumed before park returns");
    assert!(p.timeout_handle.load(Ordering::Relaxed).is_null(), "[C02.4-timer-removed] the timer handle is taken out after the park");
    assert!(unsafe { tl::DEL_TIMERS } == if timed { 1 } else { 0 }, "[C18.2-timer-deleted] a still linked timer entry is handed to del_timer");
    sup::leave_coroutine();
}

static mut IN_SUBSCRIBE: bool = false;
static mut STATE_LOADS_IN_SUBSCRIBE: usize = 0;
/// every read of the park token made by `subscribe` must find the coroutine already registered: an unpark that
/// lands right after such a read can only wake the coroutine through the slot
fn state_load_checks_registration(this: &AtomicBool, _o: Ordering) -> bool {
    unsafe {
        if IN_SUBSCRIBE && !PARK.is_null() && std::ptr::eq(this, &(*PARK).state) {
            STATE_LOADS_IN_SUBSCRIBE += 1;
            let p = &*PARK;
            let reg = match p.wait_co.take() {
                Some(c) => {
                    p.wait_co.store(c);
                    true
                }
                None => false,
            };
            assert!(reg, "[C02.2-register-before-recheck] subscribe reads the park token before the coroutine is registered: an unpark landing between that read and the registration is lost");
        }
        *(this.as_ptr())
    }
}

//@ obligation: C02.8d
//@ property: C02 C09
//@ kind: K3
//@ complete: yes
//@ functions: Park::subscribe
//@ statement: ordering inside subscribe: the coroutine is stored in the wake slot BEFORE the park token is re-read (and the token is re-read at all),
//@ statement: so that an unpark landing at any point finds either the coroutine in the slot or its token seen by the re-check
#[kani::proof]
#[kani::stub(crate::scheduler::get_scheduler, sup::get_scheduler_stub)]
#[kani::stub(crate::scheduler::Scheduler::schedule, sup::schedule_stub)]
#[kani::stub(crate::scheduler::Scheduler::add_timer, tl::add_timer_stub)]
#[kani::stub(crate::scheduler::Scheduler::del_timer, tl::del_timer_stub)]
#[kani::stub(crate::coroutine_impl::run_coroutine, sup::run_coroutine_stub)]
#[kani::stub(<crate::park::Park as std::ops::Drop>::drop, sup::park_drop_noop)]
#[kani::stub(crate::yield_now::set_co_para, sup::set_co_para_kind_only)]
#[kani::stub(std::sync::atomic::Atomic::<bool>::load, state_load_checks_registration)]
#[kani::unwind(3)]
fn c02_8d_subscribe_registers_before_recheck() {
    sup::trace_reset();
    sup::scheduler_reset();
    tl::timers_reset();
    let _h = sup::enter_coroutine();
    let p: &'static Park = Box::leak(Box::new(Park::new()));
    let mut co: CoroutineImpl = generator::shim_new_empty(0x1000);
    co.set_local_data(unsafe { generator::ghost::CUR_LOCAL });
    if kani::any() {
        p.state.store(true, Ordering::Release);
    }
    unsafe {
        PARK = p;
        STATE_LOADS_IN_SUBSCRIBE = 0;
        IN_SUBSCRIBE = true;
    }
    EventSource::subscribe(unsafe { &mut *(p as *const Park as *mut Park) }, co);
    unsafe { IN_SUBSCRIBE = false };
    assert!(unsafe { STATE_LOADS_IN_SUBSCRIBE } >= 1, "[C02.2-recheck-exists] subscribe must re-read the park token after registering");
    sup::leave_coroutine();
}
