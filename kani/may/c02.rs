//! C02 — park/unpark never loses a wake-up (coroutine side). Child module of `park.rs`.
//!
//! The code under test is the real `Park::{park_timeout, check_park, subscribe, unpark_impl, wake_up,
//! fast_wake_up, remove_timeout_handle, yield_back}`, `yield_with`, `CancelImpl::cancel`, run in coroutine
//! context on the generator shim. A park that has to yield reaches the harness's yield hook, which plays the
//! worker thread and the environment: environment events BEFORE the worker calls `subscribe` (the classic
//! lost-wake-up window), the real `subscribe`, environment events AFTER it. Events are the real `Park::unpark`,
//! the real `Cancel::cancel` and the timer expiry (`vk_tl::timer_fires`). The hook then checks that the parked
//! coroutine was handed to the scheduler exactly once iff an event happened, moves the passed-in result into the
//! coroutine context (what `resume` does) and returns, which is the coroutine being resumed.
//@ file-needs: tl cz
//@ file-inject: src/park.rs
//@ file-property: C02
use super::*;
use crate::coroutine_impl::vk_support as sup;
use crate::coroutine_impl::EventSubscriber;
use crate::timeout_list::vk_tl as tl;

static mut PARK: *const Park = std::ptr::null();
static mut CO: Option<&'static crate::coroutine_impl::Coroutine> = None;
// which events the environment produced: bit0 unpark, bit1 timer, bit2 cancel
static mut EVENTS_BEFORE: u8 = 0;
static mut EVENTS_AFTER: u8 = 0;
static mut HOOK_RAN: usize = 0;
static mut RESUMPTIONS_SEEN: usize = 0;
static mut ALLOW_CANCEL_EVENT: bool = true;
static mut TIMER_WAS_ARMED: bool = false;

fn resumptions() -> usize {
    sup::count(sup::E_SCHEDULE) + sup::count(sup::E_SCHEDULE_GLOBAL) + sup::count(sup::E_RUN)
}

fn env_events(may_timer: bool) -> u8 {
    let mut done = 0u8;
    let p = unsafe { &*PARK };
    if kani::any() {
        p.unpark();
        done |= 1;
    }
    if may_timer && kani::any() {
        let data = unsafe { tl::LAST_TIMER_DATA.clone() };
        if let Some(d) = data {
            tl::timer_fires(&d);
            done |= 2;
        }
    }
    if unsafe { ALLOW_CANCEL_EVENT } && kani::any() {
        let co = unsafe { CO.unwrap() };
        unsafe { sup::cancel_of(co).cancel() };
        done |= 4;
    }
    done
}

/// the worker thread + environment, entered when the coroutine under test yields
fn yield_hook(slot: *mut u8) {
    unsafe {
        HOOK_RAN += 1;
        let es: EventSubscriber = (*(slot as *mut Option<EventSubscriber>)).take().unwrap();
        // the suspended coroutine object the worker holds after the switch
        let mut co: CoroutineImpl = generator::shim_new_empty(0x1000);
        co.set_local_data(generator::ghost::CUR_LOCAL);
        // --- window 1: the coroutine has left its stack, the worker has not subscribed yet ---
        EVENTS_BEFORE = env_events(false);
        // --- the real subscribe ---
        es.subscribe(co);
        TIMER_WAS_ARMED = tl::ADD_TIMERS > 0;
        // --- window 2: registered and waiting ---
        if resumptions() == 0 {
            EVENTS_AFTER = env_events(true);
        }
        let n = resumptions();
        RESUMPTIONS_SEEN = n;
        if EVENTS_BEFORE | EVENTS_AFTER != 0 {
            assert!(n >= 1, "[C02.2-no-lost-wakeup] an unpark / time-out / cancel happened but the parked coroutine was not handed to the scheduler: it sleeps forever");
        }
        assert!(n <= 1, "[C02.5-single-resumption] the parked coroutine was handed to the scheduler more than once");
        if n == 0 {
            // nobody woke it: it stays parked; nothing more to check on this path
            kani::assume(false);
        }
        // resume: the passed-in result travels with the coroutine object
        let mut resumed = match sup::SCHEDULED.take() {
            Some(c) => c,
            None => sup::RAN.take().unwrap(),
        };
        sup::set_current_para(resumed.shim_take_para());
        std::mem::forget(resumed);
    }
}

fn setup(allow_cancel_event: bool, ignore_cancel: bool) -> &'static Park {
    sup::trace_reset();
    sup::scheduler_reset();
    tl::timers_reset();
    let co = sup::enter_coroutine();
    let p: &'static Park = Box::leak(Box::new(Park::new()));
    p.ignore_cancel(ignore_cancel);
    unsafe {
        PARK = p;
        CO = Some(co);
        EVENTS_BEFORE = 0;
        EVENTS_AFTER = 0;
        HOOK_RAN = 0;
        RESUMPTIONS_SEEN = 0;
        ALLOW_CANCEL_EVENT = allow_cancel_event;
        TIMER_WAS_ARMED = false;
        generator::ghost::YIELDS = 0;
        generator::ghost::YIELD_HOOK = Some(yield_hook);
        sup::ON_CANCEL_PANIC = None;
    }
    p
}

//@ obligation: C02.1a
//@ kind: K2
//@ complete: yes
//@ functions: Park::unpark, Park::unpark_impl, Park::check_park, Park::park_timeout
//@ statement: token semantics without blocking: after unpark() (once or twice) the next park_timeout returns Ok at once — zero yields, nothing
//@ statement: scheduled — and consumes the token: exactly one token is left by any number of unparks, none after the park
#[kani::proof]
#[kani::stub(crate::scheduler::get_scheduler, sup::get_scheduler_stub)]
#[kani::stub(crate::scheduler::Scheduler::schedule, sup::schedule_stub)]
#[kani::stub(crate::scheduler::Scheduler::add_timer, tl::add_timer_stub)]
#[kani::stub(crate::scheduler::Scheduler::del_timer, tl::del_timer_stub)]
#[kani::stub(crate::coroutine_impl::run_coroutine, sup::run_coroutine_stub)]
#[kani::stub(crate::cancel::trigger_cancel_panic, sup::cancel_panic_stub)]
#[kani::unwind(3)]
fn c02_1a_token_is_kept_and_consumed() {
    let p = setup(false, true);
    p.unpark();
    if kani::any() {
        p.unpark();
    }
    assert!(resumptions() == 0, "[C02.1-unpark-idle] unparking a handle nobody is parked on schedules nothing");
    let timed: bool = kani::any();
    let r = p.park_timeout(if timed { Some(Duration::from_millis(2)) } else { None });
    assert!(r.is_ok(), "[C02.1-token-ok] a park that finds a token returns Ok");
    assert!(unsafe { generator::ghost::YIELDS } == 0 && unsafe { HOOK_RAN } == 0, "[C02.1-token-no-block] a park that finds a token does not yield");
    assert!(!p.state.load(Ordering::Acquire), "[C02.1-token-consumed] the park consumes the token (two unparks leave one)");
    assert!(unsafe { tl::ADD_TIMERS } == 0, "[C02.1-no-timer] no timer is armed when the park does not block");
    sup::leave_coroutine();
}

//@ obligation: C02.2a
//@ kind: K3
//@ complete: yes
//@ functions: Park::park_timeout, Park::subscribe, Park::unpark_impl, Park::wake_up, Park::fast_wake_up, Park::remove_timeout_handle, Park::yield_back, yield_with, CancelImpl::cancel
//@ statement: a park that has to block (cancellation enabled, with and without time-out) against every combination of unpark / time-out / cancel
//@ statement: delivered before the worker subscribes or after it: whenever at least one of them happened the coroutine is handed to the scheduler
//@ statement: exactly once (never lost, never twice); the park then returns Ok for an unpark alone, Timeout only if the timer fired, Canceled only if
//@ statement: it was cancelled; the token, the passed-in result and the timer are cleaned up; exactly one yield
#[kani::proof]
#[kani::stub(crate::scheduler::get_scheduler, sup::get_scheduler_stub)]
#[kani::stub(crate::scheduler::Scheduler::schedule, sup::schedule_stub)]
#[kani::stub(crate::scheduler::Scheduler::add_timer, tl::add_timer_stub)]
#[kani::stub(crate::scheduler::Scheduler::del_timer, tl::del_timer_stub)]
#[kani::stub(crate::coroutine_impl::run_coroutine, sup::run_coroutine_stub)]
#[kani::stub(crate::cancel::trigger_cancel_panic, sup::cancel_panic_stub)]
#[kani::unwind(3)]
fn c02_2a_blocking_park_is_woken_exactly_once() {
    // the Blocker flavour: the caller handles the cancel result itself (no panic inside park)
    let p = setup(true, true);
    let timed: bool = kani::any();
    let d = Duration::from_millis(7);
    let r = p.park_timeout(if timed { Some(d) } else { None });
    // reaching this point means the coroutine was resumed
    assert!(unsafe { generator::ghost::YIELDS } == 1 && unsafe { HOOK_RAN } == 1, "[C02.2-one-yield] a blocking park yields exactly once");
    let ev = unsafe { EVENTS_BEFORE | EVENTS_AFTER };
    assert!(ev != 0 && unsafe { RESUMPTIONS_SEEN } == 1, "[C02.2-resumed-for-a-reason] the park returned although nothing woke it");
    match r {
        Ok(()) => assert!(ev & 1 != 0 || ev & 4 != 0, "[C02.2-ok-needs-unpark] Ok without an unpark"),
        Err(ParkError::Timeout) => assert!(timed && ev & 2 != 0, "[C02.2-timeout-needs-timer] Timeout although no timer fired"),
        Err(ParkError::Canceled) => assert!(ev & 4 != 0, "[C02.2-canceled-needs-cancel] Canceled although nobody cancelled the coroutine"),
    }
    if ev == 1 {
        assert!(r.is_ok(), "[C02.2-unpark-ok] an unpark alone makes the park return Ok");
    }
    if ev == 2 {
        assert!(r == Err(ParkError::Timeout), "[C02.2-timer-timeout] a time-out alone makes the park return Timeout");
    }
    assert!(unsafe { TIMER_WAS_ARMED } == timed, "[C02.2-timer-armed-iff] a timer is armed iff a time-out was given");
    if timed {
        assert!(unsafe { tl::LAST_TIMER_DUR } == Some(d), "[C08.5-duration-unchanged] the caller's duration reaches the timer unchanged");
    }
    // clean-up on every path
    assert!(!p.state.load(Ordering::Acquire), "[C02.4-token-cleared] the token is cleared after the park");
    assert!(!sup::current_para_is_some(), "[C15.3-result-consumed] the passed-in result is consumed before park returns");
    assert!(p.timeout_handle.load(Ordering::Relaxed).is_null(), "[C02.4-timer-removed] the timer handle is removed after the park");
    assert!(p.timeout.take().is_none(), "[C02.4-timeout-cleared] the stored time-out does not leak into the next park");
    kani::cover!(unsafe { EVENTS_BEFORE } == 1, "unpark in the lost-wake-up window");
    kani::cover!(unsafe { EVENTS_BEFORE } == 4, "cancel before subscribe");
    kani::cover!(unsafe { EVENTS_AFTER } == 2, "timer fires");
    kani::cover!(unsafe { EVENTS_AFTER } == 1, "unpark after subscribe");
    sup::leave_coroutine();
}

fn c02_3a_at_panic() {
    kani::cover!(true, "cancel panic raised by park");
    let ev = unsafe { EVENTS_BEFORE | EVENTS_AFTER };
    assert!(ev & 4 != 0 || unsafe { PRE_CANCELLED }, "[C09.3-panic-needs-cancel] the cancel panic was raised in a coroutine nobody cancelled");
    assert!(!sup::current_para_is_some(), "[C15.3-result-consumed-before-panic] the passed-in result is consumed before the cancel panic");
}
static mut PRE_CANCELLED: bool = false;

//@ obligation: C02.3a
//@ property: C02 C09
//@ kind: K3
//@ complete: yes
//@ functions: Park::park_timeout, Park::subscribe, Park::yield_back, yield_with, CancelImpl::check_cancel, CancelImpl::cancel
//@ statement: coroutine::park flavour (cancellation checked inside the park): an already cancelled coroutine does not yield at all and the cancel
//@ statement: panic is raised; a coroutine cancelled while parked is resumed exactly once and the panic is raised after resume; a coroutine nobody
//@ statement: cancelled never sees the panic and its park returns normally
#[kani::proof]
#[kani::stub(crate::scheduler::get_scheduler, sup::get_scheduler_stub)]
#[kani::stub(crate::scheduler::Scheduler::schedule, sup::schedule_stub)]
#[kani::stub(crate::scheduler::Scheduler::add_timer, tl::add_timer_stub)]
#[kani::stub(crate::scheduler::Scheduler::del_timer, tl::del_timer_stub)]
#[kani::stub(crate::coroutine_impl::run_coroutine, sup::run_coroutine_stub)]
#[kani::stub(crate::cancel::trigger_cancel_panic, sup::cancel_panic_stub)]
#[kani::unwind(3)]
fn c02_3a_cancel_aware_park() {
    let p = setup(true, false);
    let pre: bool = kani::any();
    unsafe {
        PRE_CANCELLED = pre;
        sup::ON_CANCEL_PANIC = Some(c02_3a_at_panic);
    }
    if pre {
        sup::cancel_of(unsafe { CO.unwrap() }).vk_set_cancel_bit();
    }
    let r = p.park_timeout(None);
    // returned normally: nobody cancelled
    let ev = unsafe { EVENTS_BEFORE | EVENTS_AFTER };
    assert!(!pre, "[C09.3-precancelled-panics] an already cancelled coroutine must not return from park normally");
    assert!(ev & 4 == 0, "[C09.3-cancelled-panics] a coroutine cancelled while parked must not return from park normally");
    assert!(r.is_ok() && ev == 1, "[C02.3-normal-return] without cancel the park returns Ok after an unpark");
    sup::leave_coroutine();
}

//@ obligation: C02.canary
//@ kind: K3
//@ canary: yes
//@ functions: Park::park_timeout
//@ statement: canary — claims a blocking park is never resumed; must FAIL
#[kani::proof]
#[kani::stub(crate::scheduler::get_scheduler, sup::get_scheduler_stub)]
#[kani::stub(crate::scheduler::Scheduler::schedule, sup::schedule_stub)]
#[kani::stub(crate::scheduler::Scheduler::add_timer, tl::add_timer_stub)]
#[kani::stub(crate::scheduler::Scheduler::del_timer, tl::del_timer_stub)]
#[kani::stub(crate::coroutine_impl::run_coroutine, sup::run_coroutine_stub)]
#[kani::stub(crate::cancel::trigger_cancel_panic, sup::cancel_panic_stub)]
#[kani::unwind(3)]
fn c02_canary() {
    let p = setup(false, true);
    let _ = p.park_timeout(None);
    assert!(false, "[C02.canary] canary (expected to fail)");
}
