//! C02 (thread side) — `ThreadPark` token semantics on the parking_lot shim. Child module of `sync/blocking.rs`.
//@ file-inject: src/sync/blocking.rs
//@ file-property: C02
use super::*;

static mut HOOK_UNPARKS: bool = false;
static mut TP: *const ThreadPark = std::ptr::null();
static mut TIMED_OUT_NEXT: bool = false;

/// while the thread is blocked in the condvar: optionally another thread calls unpark; the wait then ends
/// either because of that notify, spuriously, or (timed waits) by time-out
fn condvar_blocked(_cv: *const u8, timed: bool) -> bool {
    unsafe {
        if HOOK_UNPARKS {
            (*TP).unpark();
        }
        timed && TIMED_OUT_NEXT
    }
}

//@ obligation: C02.6a
//@ kind: K2
//@ complete: yes
//@ functions: ThreadPark::new, ThreadPark::park_timeout, ThreadPark::unpark
//@ statement: thread-side token semantics: unpark is idempotent (two unparks leave one token); a park that finds the token returns Ok at once without
//@ statement: waiting and clears it; a park without token waits; it returns Ok after an unpark arrives while it waits and Timeout only if the condvar
//@ statement: reported a time-out (never for an untimed park); the token is clear after every return
#[kani::proof]
#[kani::unwind(4)]
fn c02_6a_thread_park_token() {
    unsafe { parking_lot::ghost::reset() };
    let tp: &'static ThreadPark = Box::leak(Box::new(ThreadPark::new()));
    unsafe {
        TP = tp;
        parking_lot::ghost::CONDVAR_WAIT_HOOK = Some(condvar_blocked);
    }
    let pre: u8 = kani::any();
    kani::assume(pre <= 2);
    if pre >= 1 {
        tp.unpark();
    }
    if pre >= 2 {
        tp.unpark();
    }
    let timed: bool = kani::any();
    unsafe {
        HOOK_UNPARKS = kani::any();
        TIMED_OUT_NEXT = kani::any();
        // an untimed park that nobody unparks blocks forever: not a case
        kani::assume(pre >= 1 || HOOK_UNPARKS || (timed && TIMED_OUT_NEXT));
    }
    let r = tp.park_timeout(if timed { Some(Duration::from_millis(1)) } else { None });
    let waits = unsafe { parking_lot::ghost::CONDVAR_WAITS };
    if pre >= 1 {
        assert!(r.is_ok() && waits == 0, "[C02.6-token-no-wait] a park that finds the token returns Ok without waiting");
    } else {
        assert!(waits == 1, "[C02.6-waits] a park without token waits on the condvar");
        if unsafe { HOOK_UNPARKS } && !(timed && unsafe { TIMED_OUT_NEXT }) {
            assert!(r.is_ok(), "[C02.6-unpark-wakes] an unpark that arrives during the wait ends it with Ok");
        }
        if r == Err(ParkError::Timeout) {
            assert!(timed && unsafe { TIMED_OUT_NEXT }, "[C02.6-timeout-only-if-timed-out] Timeout although the condvar did not report a time-out");
        }
    }
    assert!(r != Err(ParkError::Canceled), "[C02.6-thread-never-canceled] a thread park never reports Canceled");
    assert!(*tp.lock.lock() == 0, "[C02.6-token-cleared] the token is clear after the park (two unparks leave one token)");
    kani::cover!(pre == 2, "two unparks before the park");
    kani::cover!(pre == 0 && unsafe { HOOK_UNPARKS }, "unpark during the wait");
    kani::cover!(r == Err(ParkError::Timeout), "timed out");
}
