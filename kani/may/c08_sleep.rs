//! C08 / C09 / C15 — `coroutine::sleep`: the coroutine is handed to the timer with exactly the caller's duration, a
//! cancel that raced with the registration wakes it, and the TimedOut result passed in by the timer is consumed before
//! sleep returns (it must not leak into the coroutine's next blocking call). Child module of `sleep.rs`.
//@ file-needs: tl cz
//@ file-inject: src/sleep.rs
//@ file-property: C08
use super::*;
use crate::coroutine_impl::vk_support as sup;
use crate::timeout_list::vk_tl as tl;

static mut YIELDS: usize = 0;
static mut CANCEL_BEFORE_SUBSCRIBE: bool = false;
static mut CO_ID: usize = 0;
static mut RESUMED_IN_SUBSCRIBE: usize = 0;

/// contract of `yield_with(&source)` (generator shim + C02): the coroutine is suspended, the worker calls
/// `source.subscribe(co)` (the REAL subscribe of the source, static dispatch), somebody resumes it later — here the
/// timer, which passes the TimedOut result in (scheduler.rs timer_event_handler), or the cancel
fn yield_with_contract<T: EventSource>(r: &T) {
    unsafe {
        YIELDS += 1;
        let mut co: CoroutineImpl = generator::shim_new_empty(0x1000);
        co.set_local_data(generator::ghost::CUR_LOCAL);
        CO_ID = co.shim_id();
        if CANCEL_BEFORE_SUBSCRIBE {
            co_cancel_data(&co).vk_set_cancel_bit();
        }
        let src = r as *const T as *mut T;
        (*src).subscribe(co);
        RESUMED_IN_SUBSCRIBE = sup::count(sup::E_SCHEDULE) + sup::count(sup::E_RUN);
        if !CANCEL_BEFORE_SUBSCRIBE {
            // the timer fires: the coroutine is resumed with the TimedOut result
            sup::set_current_para(Some(std::io::Error::from(std::io::ErrorKind::TimedOut)));
        }
    }
}

fn sleep_hands_d_to_the_timer<const BOUNDED: bool>() {
    sup::trace_reset();
    sup::scheduler_reset();
    tl::timers_reset();
    let h = sup::enter_coroutine();
    let secs: u64 = kani::any();
    let nanos: u32 = kani::any();
    kani::assume(nanos < 1_000_000_000);
    if BOUNDED {
        kani::assume(secs <= 0xFFFF);
    }
    let d = Duration::new(secs, nanos);
    unsafe {
        YIELDS = 0;
        CANCEL_BEFORE_SUBSCRIBE = false;
    }
    sleep(d);
    unsafe {
        assert!(YIELDS == 1, "[C08.4-suspends-once] sleep suspends the coroutine exactly once");
        assert!(tl::ADD_TIMERS == 1, "[C08.4-one-timer] sleep arms exactly one timer");
        let armed = tl::LAST_TIMER_DUR.unwrap();
        assert!(armed >= d, "[C08.4-never-early] the timer is armed with less than the duration the caller asked for: sleep returns early");
        match d.checked_add(Duration::from_millis(1)) {
            Some(limit) => assert!(armed < limit, "[C08.4-prompt] the timer is armed a millisecond or more later than the caller asked for"),
            None => {}
        }
        let data = tl::LAST_TIMER_DATA.as_ref().unwrap();
        let inside = data.take();
        assert!(inside.as_ref().map(|c| c.shim_id()) == Some(CO_ID), "[C08.4-coroutine-in-timer] the sleeping coroutine is what the timer will resume");
        std::mem::forget(inside);
        assert!(sup::cancel_of(h).vk_co_registered(), "[C09.2-registered-for-cancel] the sleeping coroutine is registered with its Cancel object");
        assert!(RESUMED_IN_SUBSCRIBE == 0, "[C08.4-not-resumed-early] a coroutine that is not cancelled is resumed by nobody before the timer");
    }
    assert!(!sup::current_para_is_some(), "[C15.3-result-consumed] the TimedOut result passed in by the timer is consumed before sleep returns: otherwise the next blocking call of this coroutine reports a time-out that never happened");
    sup::leave_coroutine();
}


//@ obligation: C08.4a
//@ property: C08 C15
//@ kind: K3
//@ complete: yes
//@ functions: sleep, Sleep::subscribe
//@ statement: sleep(d) in coroutine context, for every d: the coroutine suspends exactly once; its subscribe hands the coroutine to the timer exactly once with
//@ statement: a duration d' with d <= d' < d + 1ms (never early, within the 1 ms granularity); the coroutine is inside the timer data and registered with the Cancel object; nobody resumes it before the
//@ statement: timer; when sleep returns the TimedOut result passed in by the timer has been consumed (no stale result for the next blocking call)
#[kani::proof]
#[kani::stub(crate::scheduler::get_scheduler, sup::get_scheduler_stub)]
#[kani::stub(crate::scheduler::Scheduler::schedule, sup::schedule_stub)]
#[kani::stub(crate::scheduler::Scheduler::add_timer, tl::add_timer_stub)]
#[kani::stub(crate::coroutine_impl::run_coroutine, sup::run_coroutine_stub)]
#[kani::stub(<crate::park::Park as std::ops::Drop>::drop, sup::park_drop_noop)]
#[kani::stub(crate::yield_now::set_co_para, sup::set_co_para_kind_only)]
#[kani::stub(crate::yield_now::yield_with, yield_with_contract)]
#[kani::unwind(3)]
fn c08_4a_sleep_hands_exactly_d_to_the_timer() {
    sleep_hands_d_to_the_timer::<false>();
}

//@ obligation: C08.4c
//@ property: C08 C15
//@ kind: K3
//@ complete: no
//@ bound: durations below 2^16 seconds (the same obligation as C08.4a on a domain where CBMC can also decide variants of the code that do arithmetic on the duration)
//@ functions: sleep, Sleep::subscribe
//@ statement: sleep(d) in coroutine context, for every d: the coroutine suspends exactly once; its subscribe hands the coroutine to the timer exactly once with
//@ statement: a duration d' with d <= d' < d + 1ms (never early, within the 1 ms granularity); the coroutine is inside the timer data and registered with the Cancel object; nobody resumes it before the
//@ statement: timer; when sleep returns the TimedOut result passed in by the timer has been consumed (no stale result for the next blocking call)
#[kani::proof]
#[kani::stub(crate::scheduler::get_scheduler, sup::get_scheduler_stub)]
#[kani::stub(crate::scheduler::Scheduler::schedule, sup::schedule_stub)]
#[kani::stub(crate::scheduler::Scheduler::add_timer, tl::add_timer_stub)]
#[kani::stub(crate::coroutine_impl::run_coroutine, sup::run_coroutine_stub)]
#[kani::stub(<crate::park::Park as std::ops::Drop>::drop, sup::park_drop_noop)]
#[kani::stub(crate::yield_now::set_co_para, sup::set_co_para_kind_only)]
#[kani::stub(crate::yield_now::yield_with, yield_with_contract)]
#[kani::unwind(3)]
fn c08_4c_sleep_hands_exactly_d_to_the_timer_bounded() {
    sleep_hands_d_to_the_timer::<true>();
}

//@ obligation: C08.4b
//@ property: C09 C08
//@ kind: K3
//@ complete: yes
//@ functions: Sleep::subscribe, CancelImpl::set_co, CancelImpl::cancel
//@ statement: a cancel that arrived before the worker subscribes the sleeping coroutine: subscribe registers the coroutine, re-checks the cancel bit and the
//@ statement: coroutine is taken out of the timer data and rescheduled exactly once (it does not sleep out its duration)
#[kani::proof]
#[kani::stub(crate::scheduler::get_scheduler, sup::get_scheduler_stub)]
#[kani::stub(crate::scheduler::Scheduler::schedule, sup::schedule_stub)]
#[kani::stub(crate::scheduler::Scheduler::add_timer, tl::add_timer_stub)]
#[kani::stub(crate::coroutine_impl::run_coroutine, sup::run_coroutine_stub)]
#[kani::stub(<crate::park::Park as std::ops::Drop>::drop, sup::park_drop_noop)]
#[kani::stub(crate::yield_now::set_co_para, sup::set_co_para_kind_only)]
#[kani::unwind(3)]
fn c08_4b_cancel_before_subscribe_wakes_the_sleeper() {
    sup::trace_reset();
    sup::scheduler_reset();
    tl::timers_reset();
    let h = sup::enter_coroutine();
    let mut co: CoroutineImpl = generator::shim_new_empty(0x1000);
    co.set_local_data(unsafe { generator::ghost::CUR_LOCAL });
    sup::cancel_of(h).vk_set_cancel_bit();
    let mut s = Sleep { dur: Duration::from_millis(50) };
    s.subscribe(co);
    let resumed = sup::count(sup::E_SCHEDULE) + sup::count(sup::E_RUN);
    assert!(resumed == 1, "[C09.2-recheck-cancel] a cancel that arrived before the registration: subscribe must wake the sleeper itself, once");
    let data = unsafe { tl::LAST_TIMER_DATA.as_ref().unwrap() };
    assert!(data.take().is_none(), "[C09.2-taken-from-timer] the cancelled coroutine was taken out of the timer data: the timer cannot resume it a second time");
    sup::leave_coroutine();
}
