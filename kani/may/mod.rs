//! Kani harness module injected into the scratch copy of `may` (never committed to /repo).
#![allow(dead_code, unused_imports, static_mut_refs, clippy::all)]

mod c08;
