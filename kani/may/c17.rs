//! C17 / C18 — socket read: the caller's try-io / re-check / yield loop never misses a readiness edge and passes
//! the kernel's result through unchanged; the worker side (`subscribe`) re-checks the readiness flag after
//! publishing the coroutine; whoever takes the coroutine out of `EventData.co` runs/schedules it exactly once.
//! Child module of `io/sys/unix/net/socket_read.rs`. The kernel (`nix::unistd::read`) and the suspension
//! (`yield_with_io`) are replaced by scripted stubs; the selector is an environment step that sets the flag.
//@ file-needs: cz
//@ file-inject: src/io/sys/unix/net/socket_read.rs
//@ file-modpath: io::sys::net::socket_read
//@ file-mirror: src/io/sys/unix/mod.rs :: if likely(is_coroutine) { match get_co_para() { None => Ok(()), Some(err) => Err(err), } } else {
//@ file-property: C17
use super::*;
use crate::coroutine_impl::vk_support as sup;
use crate::io::sys::EventData;
use std::sync::Arc;

static mut IO: *const EventData = std::ptr::null();
static mut READS: usize = 0;
static mut YIELDS: usize = 0;
static mut FLAG_AT_READ: usize = 0;
/// script of the kernel: result of the k-th read: 0 EAGAIN, 1 Ok(n), 2 ECONNRESET
static mut SCRIPT: [u8; 3] = [0; 3];
static mut READ_N: usize = 0;
/// the selector reports readiness (sets the flag) right after the k-th read returned EAGAIN (usize::MAX: never)
static mut EDGE_AFTER_READ: usize = usize::MAX;
static mut BUF_PTR: *const u8 = std::ptr::null();
static mut BUF_LEN: usize = 0;

fn read_stub<Fd: std::os::fd::AsFd>(_fd: Fd, buf: &mut [u8]) -> nix::Result<usize> {
    unsafe {
        let io = &*IO;
        FLAG_AT_READ = io.io_flag.load(Ordering::Relaxed);
        assert!(FLAG_AT_READ == 0, "[C17.1-clear-before-syscall] the readiness flag must be cleared BEFORE the non-blocking syscall (an edge that arrives during the syscall would be wiped out afterwards)");
        assert!(buf.as_ptr() == BUF_PTR && buf.len() == BUF_LEN, "[C17.1-buffer-unchanged] the caller's buffer is passed to the kernel unchanged");
        let k = READS;
        READS += 1;
        assert!(k == 0 || (k <= 3 && SCRIPT[k - 1] == 0), "[C17.1-stops-at-final-result] another attempt is made although the previous one returned a final result (success or a fatal error): that result is lost");
        if k >= 3 {
            kani::assume(false);
        }
        let r = SCRIPT[k];
        if r == 0 && EDGE_AFTER_READ == k {
            // the kernel got data right after this read returned EAGAIN: the selector sets the flag
            io.io_flag.fetch_or(1, Ordering::Release);
        }
        match r {
            0 => Err(nix::errno::Errno::EAGAIN),
            1 => Ok(READ_N),
            _ => Err(nix::errno::Errno::ECONNRESET),
        }
    }
}

/// contract of the suspension: the coroutine is resumed when the socket became ready (the selector sets the flag
/// and takes the coroutine). Reaching this point while an edge is already recorded in the flag is the bug.
fn yield_stub<T: EventSource>(_r: &T, _is_co: bool) {
    unsafe {
        let io = &*IO;
        YIELDS += 1;
        assert!(io.io_flag.load(Ordering::Relaxed) == 0, "[C17.1-recheck-before-yield] the caller suspends although the readiness flag is set: the edge was consumed and nobody will wake it");
        // resumed by a later readiness event
        io.io_flag.fetch_or(1, Ordering::Release);
    }
}

/// `co_io_result` restricted to its coroutine branch (verbatim copy of that branch). The thread branch reads a
/// lazily initialised thread-local with a destructor, which reaches `catch_unwind` and crashes kani-compiler 0.68.
fn co_io_result_coroutine_branch(is_coroutine: bool) -> io::Result<()> {
    assert!(is_coroutine);
    match crate::yield_now::get_co_para() {
        None => Ok(()),
        Some(err) => Err(err),
    }
}

fn mk_io() -> &'static IoData {
    let ev = Arc::new(EventData::new(5));
    unsafe { IO = Arc::as_ptr(&ev) };
    Box::leak(Box::new(IoData(ev)))
}

//@ obligation: C17.1a
//@ kind: K3
//@ complete: no
//@ bound: at most 3 non-blocking read attempts per call (every script of EAGAIN / Ok(n) / ECONNRESET results of that length, every placement of one readiness edge)
//@ functions: SocketRead::done, co_io_result (coroutine branch), from_nix_error
//@ statement: the read loop in coroutine context: the readiness flag is cleared before every syscall; after EAGAIN the flag is re-checked and the
//@ statement: caller suspends only with the flag clear (a readiness edge that arrived after the failed read makes it retry instead); Ok(n) is returned
//@ statement: verbatim for every n (0 = end of stream included), any other errno is returned as that OS error, the caller's buffer reaches the
//@ statement: kernel unchanged; a pending time-out / cancel result is returned before any syscall
#[kani::proof]
#[kani::stub(crate::scheduler::get_scheduler, sup::get_scheduler_stub)]
#[kani::stub(<crate::park::Park as std::ops::Drop>::drop, sup::park_drop_noop)]
#[kani::stub(nix::unistd::read, read_stub)]
#[kani::stub(crate::io::sys::co_io_result, co_io_result_coroutine_branch)]
#[kani::stub(crate::yield_now::yield_with_io, yield_stub)]
#[kani::unwind(5)]
fn c17_1a_read_loop_never_misses_an_edge() {
    let _h = sup::enter_coroutine();
    let io = mk_io();
    let mut buf = [0u8; 8];
    unsafe {
        READS = 0;
        YIELDS = 0;
        SCRIPT = kani::any();
        kani::assume(SCRIPT[0] <= 2 && SCRIPT[1] <= 2 && SCRIPT[2] <= 2);
        // the call ends within three attempts
        kani::assume(SCRIPT[0] != 0 || SCRIPT[1] != 0 || SCRIPT[2] != 0);
        READ_N = kani::any();
        kani::assume(READ_N <= 8);
        EDGE_AFTER_READ = kani::any();
        BUF_PTR = buf.as_ptr();
        BUF_LEN = buf.len();
    }
    let pending: u8 = kani::any();
    kani::assume(pending <= 1);
    if pending == 1 {
        sup::set_current_para(Some(std::io::Error::from(std::io::ErrorKind::TimedOut)));
    }
    // a stale flag from an earlier operation
    if kani::any() {
        unsafe { (*IO).io_flag.store(1, Ordering::Relaxed) };
    }
    let mut r = SocketRead { io_data: io, buf: &mut buf, timeout: None, is_coroutine: true };
    let res = r.done();
    if pending == 1 {
        assert!(unsafe { READS } == 0, "[C17.1-pending-error-first] a pending time-out / cancel result is returned before any syscall");
        assert!(res.as_ref().err().map(|e| e.kind()) == Some(std::io::ErrorKind::TimedOut), "[C17.1-pending-error-first] a pending time-out / cancel result is returned before any syscall");
    } else {
        // the first non-EAGAIN entry of the script decides
        let k = unsafe { READS } - 1;
        let last = unsafe { SCRIPT[k] };
        assert!(last != 0, "[C17.1-returns-kernel-result] done() returned without a final kernel result");
        match res {
            Ok(n) => assert!(last == 1 && n == unsafe { READ_N }, "[C17.1-ok-verbatim] Ok(n) is returned exactly as the kernel reported it"),
            Err(e) => {
                assert!(last == 2 && e.raw_os_error() == Some(nix::errno::Errno::ECONNRESET as i32), "[C17.1-error-verbatim] a kernel error is returned as that OS error");
                std::mem::forget(e);
            }
        }
        // one suspension per EAGAIN that was not followed by an edge
        let mut expected_yields = 0;
        let mut i = 0;
        while i < k {
            if unsafe { EDGE_AFTER_READ } != i {
                expected_yields += 1;
            }
            i += 1;
        }
        assert!(unsafe { YIELDS } == expected_yields, "[C17.1-yield-iff-no-edge] the caller suspends exactly after the failed attempts that were not followed by a readiness edge");
    }
    kani::cover!(unsafe { YIELDS } == 0 && unsafe { READS } == 2, "an edge right after EAGAIN made the caller retry without suspending");
    kani::cover!(unsafe { YIELDS } == 2, "two suspensions");
    sup::leave_coroutine();
}

static mut ADD_IO_TIMERS: usize = 0;
static mut CO_PUBLISHED_AT_TIMER: bool = false;
fn add_io_timer_stub(_s: &crate::io::sys::Selector, io: &IoData, _d: Duration) {
    unsafe {
        ADD_IO_TIMERS += 1;
        CO_PUBLISHED_AT_TIMER = match io.co.take() {
            Some(c) => {
                io.co.store(c);
                true
            }
            None => false,
        };
    }
}
fn get_selector_stub(_s: &crate::scheduler::Scheduler) -> &'static crate::io::sys::Selector {
    unsafe { std::mem::transmute::<usize, &'static crate::io::sys::Selector>(128) }
}

/// `SocketRead::subscribe` from a concrete pre-state
fn subscribe_from<const READY: bool, const CANCELLED: bool, const TIMED: bool>() {
    sup::trace_reset();
    sup::scheduler_reset();
    let h = sup::enter_coroutine();
    let io = mk_io();
    unsafe { ADD_IO_TIMERS = 0 };
    let mut buf = [0u8; 4];
    let mut r = SocketRead { io_data: io, buf: &mut buf, timeout: if TIMED { Some(Duration::from_millis(3)) } else { None }, is_coroutine: true };
    let mut co: CoroutineImpl = generator::shim_new_empty(0x1000);
    co.set_local_data(unsafe { generator::ghost::CUR_LOCAL });
    let id = co.shim_id();
    if READY {
        // the selector saw the fd ready after the caller's last check and found no coroutine to wake
        io.io_flag.fetch_or(1, Ordering::Release);
    }
    if CANCELLED {
        sup::cancel_of(h).vk_set_cancel_bit();
    }
    EventSource::subscribe(&mut r, co);
    let resumed = sup::count(sup::E_RUN) + sup::count(sup::E_SCHEDULE);
    assert!(unsafe { ADD_IO_TIMERS } == if TIMED { 1 } else { 0 }, "[C18.2-timer-armed-iff] an I/O timer is armed iff the operation has a time-out");
    if TIMED {
        assert!(!unsafe { CO_PUBLISHED_AT_TIMER }, "[C18.2-arm-before-publish] the timer is armed before the coroutine is published (whoever takes the coroutine must find the timer to disarm)");
    }
    if READY {
        assert!(resumed == 1, "[C17.2-recheck-after-publish] a readiness edge that arrived before the coroutine was published: subscribe must resume it itself, otherwise it is never woken");
        assert!(sup::resumed_id() == Some(id) && io.co.take().is_none(), "[C17.2-recheck-after-publish] a readiness edge that arrived before the coroutine was published: subscribe must resume it itself, otherwise it is never woken");
    } else if CANCELLED {
        assert!(resumed == 1, "[C18.4-recheck-cancel] a cancel that arrived before the registration makes subscribe reschedule the coroutine, once");
        assert!(io.co.take().is_none(), "[C18.4-taken] the cancelled coroutine was taken out of the I/O slot");
    } else {
        assert!(resumed == 0, "[C17.2-stays-parked] without readiness and cancel the coroutine stays parked in the I/O slot");
        let parked = io.co.take();
        assert!(parked.as_ref().map(|c| c.shim_id()) == Some(id), "[C17.2-published] the parked coroutine sits in the I/O slot for the selector");
        std::mem::forget(parked);
    }
    sup::leave_coroutine();
}

//@ obligation: C17.2a
//@ property: C17 C18
//@ kind: K3
//@ complete: yes
//@ functions: SocketRead::subscribe, EventData::fast_schedule
//@ statement: worker side of a blocked read, pre-state [readiness edge arrived after the caller's last check]: subscribe publishes the coroutine, re-checks
//@ statement: the flag and resumes the coroutine itself exactly once; with a time-out the timer is armed before the coroutine is published
#[kani::proof]
#[kani::stub(crate::scheduler::get_scheduler, sup::get_scheduler_stub)]
#[kani::stub(crate::scheduler::Scheduler::schedule, sup::schedule_stub)]
#[kani::stub(crate::scheduler::Scheduler::get_selector, get_selector_stub)]
#[kani::stub(crate::io::sys::Selector::add_io_timer, add_io_timer_stub)]
#[kani::stub(crate::coroutine_impl::run_coroutine, sup::run_coroutine_stub)]
#[kani::stub(<crate::park::Park as std::ops::Drop>::drop, sup::park_drop_noop)]
#[kani::stub(crate::yield_now::set_co_para, sup::set_co_para_kind_only)]
#[kani::unwind(3)]
fn c17_2a_subscribe_edge_raced_ahead() {
    subscribe_from::<true, false, true>();
}

//@ obligation: C17.2b
//@ property: C17 C18
//@ kind: K3
//@ complete: yes
//@ functions: SocketRead::subscribe, CancelImpl::set_io, CancelImpl::cancel, CancelIoImpl::cancel
//@ statement: pre-state [the coroutine was cancelled before the worker subscribes]: subscribe registers the I/O data with the Cancel object, re-checks
//@ statement: the cancel bit and the coroutine is taken out of the I/O slot and rescheduled exactly once
#[kani::proof]
#[kani::stub(crate::scheduler::get_scheduler, sup::get_scheduler_stub)]
#[kani::stub(crate::scheduler::Scheduler::schedule, sup::schedule_stub)]
#[kani::stub(crate::scheduler::Scheduler::get_selector, get_selector_stub)]
#[kani::stub(crate::io::sys::Selector::add_io_timer, add_io_timer_stub)]
#[kani::stub(crate::coroutine_impl::run_coroutine, sup::run_coroutine_stub)]
#[kani::stub(<crate::park::Park as std::ops::Drop>::drop, sup::park_drop_noop)]
#[kani::stub(crate::yield_now::set_co_para, sup::set_co_para_kind_only)]
#[kani::unwind(3)]
fn c17_2b_subscribe_cancel_raced_ahead() {
    subscribe_from::<false, true, false>();
}

//@ obligation: C17.2c
//@ property: C17 C18
//@ kind: K3
//@ complete: yes
//@ functions: SocketRead::subscribe
//@ statement: pre-state [nothing pending]: the coroutine stays published in the I/O slot for the selector and nothing is scheduled
#[kani::proof]
#[kani::stub(crate::scheduler::get_scheduler, sup::get_scheduler_stub)]
#[kani::stub(crate::scheduler::Scheduler::schedule, sup::schedule_stub)]
#[kani::stub(crate::scheduler::Scheduler::get_selector, get_selector_stub)]
#[kani::stub(crate::io::sys::Selector::add_io_timer, add_io_timer_stub)]
#[kani::stub(crate::coroutine_impl::run_coroutine, sup::run_coroutine_stub)]
#[kani::stub(<crate::park::Park as std::ops::Drop>::drop, sup::park_drop_noop)]
#[kani::stub(crate::yield_now::set_co_para, sup::set_co_para_kind_only)]
#[kani::unwind(3)]
fn c17_2c_subscribe_parks() {
    subscribe_from::<false, false, false>();
}

//@ obligation: C17.3a
//@ property: C17 C18
//@ kind: K2
//@ complete: yes
//@ functions: EventData::schedule, EventData::fast_schedule
//@ statement: the selector side: schedule / fast_schedule take the published coroutine and hand it to the scheduler exactly once; a second call (or a
//@ statement: call when the slot is empty because somebody else took it) does nothing
#[kani::proof]
#[kani::stub(crate::scheduler::get_scheduler, sup::get_scheduler_stub)]
#[kani::stub(crate::scheduler::Scheduler::schedule, sup::schedule_stub)]
#[kani::stub(crate::coroutine_impl::run_coroutine, sup::run_coroutine_stub)]
#[kani::stub(<crate::park::Park as std::ops::Drop>::drop, sup::park_drop_noop)]
#[kani::unwind(3)]
fn c17_3a_selector_hands_over_once() {
    sup::trace_reset();
    sup::scheduler_reset();
    let io = mk_io();
    let co: CoroutineImpl = generator::shim_new_empty(0x1000);
    let id = co.shim_id();
    io.schedule();
    assert!(sup::count(sup::E_SCHEDULE) == 0, "[C17.3-empty-slot] with no coroutine published the selector schedules nothing");
    io.co.store(co);
    let fast: bool = kani::any();
    if fast { io.fast_schedule() } else { io.schedule() }
    assert!(sup::count(sup::E_SCHEDULE) + sup::count(sup::E_RUN) == 1, "[C17.3-once] the published coroutine is handed to the scheduler exactly once");
    let got = sup::resumed_id();
    assert!(got == Some(id), "[C17.3-same] the coroutine handed over is the one that was published");
    io.schedule();
    io.fast_schedule();
    assert!(sup::count(sup::E_SCHEDULE) + sup::count(sup::E_RUN) == 1, "[C17.3-idempotent] a taken coroutine is not scheduled again");
}

//@ obligation: C17.canary
//@ kind: K3
//@ canary: yes
//@ functions: SocketRead::done
//@ statement: canary — claims the read loop never suspends; must FAIL
#[kani::proof]
#[kani::stub(crate::scheduler::get_scheduler, sup::get_scheduler_stub)]
#[kani::stub(<crate::park::Park as std::ops::Drop>::drop, sup::park_drop_noop)]
#[kani::stub(nix::unistd::read, read_stub)]
#[kani::stub(crate::io::sys::co_io_result, co_io_result_coroutine_branch)]
#[kani::stub(crate::yield_now::yield_with_io, yield_stub)]
#[kani::unwind(5)]
fn c17_canary() {
    let _h = sup::enter_coroutine();
    let io = mk_io();
    let mut buf = [0u8; 8];
    unsafe {
        READS = 0;
        YIELDS = 0;
        SCRIPT = [0, 1, 1];
        READ_N = 3;
        EDGE_AFTER_READ = usize::MAX;
        BUF_PTR = buf.as_ptr();
        BUF_LEN = buf.len();
    }
    let mut r = SocketRead { io_data: io, buf: &mut buf, timeout: None, is_coroutine: true };
    let _ = r.done();
    assert!(unsafe { YIELDS } == 0, "[C17.canary] canary (expected to fail)");
}

static mut CHECK_FLAG_LOADS: bool = false;
static mut FLAG_LOADS: usize = 0;
fn flag_load_checks_publication(this: &std::sync::atomic::AtomicUsize, _o: Ordering) -> usize {
    unsafe {
        if CHECK_FLAG_LOADS && !IO.is_null() && std::ptr::eq(this, &(*IO).io_flag) {
            FLAG_LOADS += 1;
            let io = &*IO;
            let published = match io.co.take() {
                Some(c) => {
                    io.co.store(c);
                    true
                }
                None => false,
            };
            assert!(published, "[C17.2-publish-before-recheck] subscribe reads the readiness flag before the coroutine is published: an edge landing between that read and the publication wakes nobody");
        }
        *(this.as_ptr())
    }
}

//@ obligation: C17.2d
//@ property: C17 C18
//@ kind: K3
//@ complete: yes
//@ functions: SocketRead::subscribe
//@ statement: ordering inside subscribe: the coroutine is published in the I/O slot BEFORE the readiness flag is re-read, and it is re-read at all
#[kani::proof]
#[kani::stub(crate::scheduler::get_scheduler, sup::get_scheduler_stub)]
#[kani::stub(crate::scheduler::Scheduler::schedule, sup::schedule_stub)]
#[kani::stub(crate::scheduler::Scheduler::get_selector, get_selector_stub)]
#[kani::stub(crate::io::sys::Selector::add_io_timer, add_io_timer_stub)]
#[kani::stub(crate::coroutine_impl::run_coroutine, sup::run_coroutine_stub)]
#[kani::stub(<crate::park::Park as std::ops::Drop>::drop, sup::park_drop_noop)]
#[kani::stub(crate::yield_now::set_co_para, sup::set_co_para_kind_only)]
#[kani::stub(std::sync::atomic::Atomic::<usize>::load, flag_load_checks_publication)]
#[kani::unwind(3)]
fn c17_2d_subscribe_publishes_before_recheck() {
    sup::trace_reset();
    sup::scheduler_reset();
    let _h = sup::enter_coroutine();
    let io = mk_io();
    let mut buf = [0u8; 4];
    let mut r = SocketRead { io_data: io, buf: &mut buf, timeout: None, is_coroutine: true };
    let mut co: CoroutineImpl = generator::shim_new_empty(0x1000);
    co.set_local_data(unsafe { generator::ghost::CUR_LOCAL });
    unsafe {
        FLAG_LOADS = 0;
        CHECK_FLAG_LOADS = true;
    }
    EventSource::subscribe(&mut r, co);
    unsafe { CHECK_FLAG_LOADS = false };
    assert!(unsafe { FLAG_LOADS } >= 1, "[C17.2-recheck-exists] subscribe must re-read the readiness flag after publishing the coroutine");
    sup::leave_coroutine();
}
