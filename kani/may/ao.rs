//! White-box helper for `sync/atomic_option.rs`: an observable `take` (no obligations). Child module of `atomic_option.rs`.
//@ file-inject: src/sync/atomic_option.rs
use super::*;

impl<T> AtomicOption<T> {
    /// `AtomicOption::take` with an observation in front of the real take: when the cell is the watched one
    /// (`vk_support::AO_WATCH`), the watched flag is sampled into `AO_FLAG_AT_TAKE`. (No callback: a call through a
    /// function pointer makes CBMC consider every function with a pointer parameter.)
    pub(crate) fn vk_take_observed(&self) -> Option<T> {
        unsafe {
            use crate::coroutine_impl::vk_support as sup;
            if !sup::AO_WATCH.is_null() && sup::AO_WATCH == self as *const AtomicOption<T> as *const u8 {
                sup::AO_TAKES += 1;
                sup::AO_FLAG_AT_TAKE = (*sup::AO_WATCH_FLAG).load(std::sync::atomic::Ordering::Relaxed);
            }
        }
        self.inner.take()
    }
}
