//! C16 — cqueue: every event is consumed once, its bottom half runs exactly once at that moment; the poller is
//! woken by the event that arrives. Child module of `cqueue.rs`. The event queue is replaced by the abstract
//! FIFO (C03), the blocker by the fresh-blocker contract (C02), `run_coroutine` by the abstract scheduler.
//@ file-inject: src/cqueue.rs
//@ file-property: C16
use super::*;
use crate::coroutine_impl::vk_support as sup;
use crate::park::ParkError;

static mut CQ: *const Cqueue = std::ptr::null();
static mut UNPARKS: usize = 0;
static mut PARKS: usize = 0;
static mut CHECK_PANICS: usize = 0;
static mut LAST_CHECK_PANIC_ID: usize = usize::MAX;
/// pending environment action: 0 none, 1 a select coroutine's send reaches `subscribe`, 2 a select coroutine ends (EventSender dropped)
static mut ENV_PENDING: u8 = 0;
static mut ENV_DONE: bool = false;
static mut IN_ENV: bool = false;
static mut ENV_CO_ID: usize = 0;

fn mk_cqueue(cnt: usize) -> &'static Cqueue {
    let cq: &'static Cqueue = Box::leak(Box::new(Cqueue {
        // never touched: push/pop are replaced by the abstract FIFO and the Cqueue is leaked (a real Queue<Event>
        // means two 64-slot blocks of 48-byte events, which alone exhausts CBMC's memory budget)
        ev_queue: unsafe { std::mem::MaybeUninit::zeroed().assume_init() },
        to_wake: AtomicOption::none(),
        cnt: AtomicUsize::new(cnt),
        selectors: Mutex::new(Vec::new()),
        total: AtomicUsize::new(cnt),
        is_panicking: AtomicBool::new(false),
    }));
    unsafe {
        CQ = cq;
        UNPARKS = 0;
        PARKS = 0;
        CHECK_PANICS = 0;
        LAST_CHECK_PANIC_ID = usize::MAX;
        ENV_PENDING = 0;
        ENV_DONE = false;
        IN_ENV = false;
        OBS = 0;
        ENV_WHEN = 0;
    }
    cq
}

fn registered(cq: &Cqueue) -> bool {
    match cq.to_wake.take() {
        Some(b) => {
            cq.to_wake.store(b);
            true
        }
        None => false,
    }
}

/// observation points of the poller seen so far, and the (concrete) one at which the environment acts
static mut OBS: usize = 0;
static mut ENV_WHEN: usize = 0;

/// the pending select-coroutine action runs to completion here (real code), at most once, at observation point
/// ENV_WHEN (0: before the first pop, 1: right after the first pop found nothing, 2: before the re-check pop, 3: right
/// after the re-check pop found nothing, 4: while parked). The point is CONCRETE per
/// harness: CBMC runs out of memory when the event (a heap object holding a coroutine) exists only symbolically.
fn env_step() {
    unsafe {
        if IN_ENV {
            return;
        }
        let here = OBS;
        OBS += 1;
        if ENV_DONE || ENV_PENDING == 0 || here != ENV_WHEN {
            return;
        }
        IN_ENV = true;
        let cq = &*CQ;
        let mut sender = EventSender { id: 0, token: 77, extra: AtomicUsize::new(5), cqueue: cq };
        if ENV_PENDING == 1 {
            let co: CoroutineImpl = generator::shim_new_empty(0x1000);
            ENV_CO_ID = co.shim_id();
            EventSource::subscribe(&mut sender, co);
            std::mem::forget(sender);
        } else {
            drop(sender);
        }
        ENV_DONE = true;
        IN_ENV = false;
    }
}

fn park_stub(_b: &Blocker, t: Option<Duration>) -> Result<(), ParkError> {
    unsafe {
        let cq = &*CQ;
        PARKS += 1;
        if UNPARKS == 0 {
            assert!(registered(cq), "[C16.1-registered-before-park] the poller parks without being registered: no select coroutine can wake it");
            assert!(sup::gq_len() == 0, "[C16.1-no-lost-wakeup] the poller parks although an event is queued whose sender has already looked for a waiter");
        }
        env_step();
        if UNPARKS > 0 {
            return Ok(());
        }
        let _ = t;
        kani::assume(false);
        Ok(())
    }
}

fn unpark_stub(_b: &Blocker) {
    unsafe { UNPARKS += 1 };
}

fn check_panic_stub(_c: &Cqueue, id: usize) {
    unsafe {
        CHECK_PANICS += 1;
        LAST_CHECK_PANIC_ID = id;
    }
}

fn poll_is_woken_by_the_event<const WHEN: usize>() {
    sup::gq_reset();
    sup::trace_reset();
    sup::scheduler_reset();
    let cq = mk_cqueue(1);
    unsafe {
        ENV_PENDING = 1;
        ENV_WHEN = WHEN;
        sup::ON_Q_POP = Some(env_step);
        sup::ON_Q_POP_NONE = Some(env_step);
    }
    let r = cq.poll(None);
    // poll returned
    assert!(unsafe { ENV_DONE }, "[C16.1-returns-for-a-reason] poll returned although nothing happened");
    match r {
        Ok(ev) => {
            assert!(ev.token == 77 && ev.extra == 5 && ev.kind == EventKind::Normal, "[C16.2-event-data] poll returns the token and extra data of the event that was sent");
            assert!(ev.co.is_none() && sup::count(sup::E_RUN) + sup::count(sup::E_SCHEDULE) == 1, "[C16.2-bottom-half-once] when poll returns an event its bottom half has been started exactly once");
            assert!(sup::resumed_id() == Some(unsafe { ENV_CO_ID }), "[C16.2-own-bottom-half] the bottom half that ran belongs to the event returned");
            std::mem::forget(ev);
        }
        Err(_) => assert!(false, "[C16.1-no-finished-while-alive] poll reported Finished/Timeout although a select coroutine is alive and sent an event"),
    }
    assert!(sup::gq_len() == 0, "[C16.2-consumed-once] the event is consumed exactly once");
}

//@ obligation: C16.1.0
//@ tier: thorough
//@ kind: K3
//@ complete: yes
//@ functions: Cqueue::poll, EventSender::subscribe, Event::continue_bottom
//@ statement: poll(None) with one select coroutine alive whose send reaches subscribe [before the poller's first look at the queue]: the poller never parks unregistered or with the event already queued; poll returns
//@ statement: exactly that event (token, extra), and at that moment its bottom half has been started exactly once (the coroutine inside the event
//@ statement: was handed to run_coroutine once and removed from the event)
#[kani::proof]
#[kani::stub(crate::scheduler::get_scheduler, sup::get_scheduler_stub)]
#[kani::stub(<crate::park::Park as std::ops::Drop>::drop, sup::park_drop_noop)]
#[kani::stub(may_queue::mpsc::Queue::push, sup::mq_push_stub)]
#[kani::stub(may_queue::mpsc::Queue::pop, sup::mq_pop_stub)]
#[kani::stub(crate::sync::blocking::Blocker::park, park_stub)]
#[kani::stub(crate::sync::blocking::Blocker::unpark, unpark_stub)]
#[kani::stub(crate::coroutine_impl::run_coroutine, sup::run_coroutine_stub)]
#[kani::stub(crate::cqueue::Cqueue::check_panic, check_panic_stub)]
#[kani::unwind(3)]
fn c16_1a_poll_is_woken_by_the_event_0() {
    poll_is_woken_by_the_event::<0>();
}

//@ obligation: C16.1.1
//@ kind: K3
//@ complete: yes
//@ functions: Cqueue::poll, EventSender::subscribe, Event::continue_bottom
//@ statement: poll(None) with one select coroutine alive whose send reaches subscribe [right after the poller's first look found nothing]: the poller never parks unregistered or with the event already queued; poll returns
//@ statement: exactly that event (token, extra), and at that moment its bottom half has been started exactly once (the coroutine inside the event
//@ statement: was handed to run_coroutine once and removed from the event)
#[kani::proof]
#[kani::stub(crate::scheduler::get_scheduler, sup::get_scheduler_stub)]
#[kani::stub(<crate::park::Park as std::ops::Drop>::drop, sup::park_drop_noop)]
#[kani::stub(may_queue::mpsc::Queue::push, sup::mq_push_stub)]
#[kani::stub(may_queue::mpsc::Queue::pop, sup::mq_pop_stub)]
#[kani::stub(crate::sync::blocking::Blocker::park, park_stub)]
#[kani::stub(crate::sync::blocking::Blocker::unpark, unpark_stub)]
#[kani::stub(crate::coroutine_impl::run_coroutine, sup::run_coroutine_stub)]
#[kani::stub(crate::cqueue::Cqueue::check_panic, check_panic_stub)]
#[kani::unwind(3)]
fn c16_1a_poll_is_woken_by_the_event_1() {
    poll_is_woken_by_the_event::<1>();
}

//@ obligation: C16.1.2
//@ kind: K3
//@ complete: yes
//@ functions: Cqueue::poll, EventSender::subscribe, Event::continue_bottom
//@ statement: poll(None) with one select coroutine alive whose send reaches subscribe [between the poller's registration and its re-check]: the poller never parks unregistered or with the event already queued; poll returns
//@ statement: exactly that event (token, extra), and at that moment its bottom half has been started exactly once (the coroutine inside the event
//@ statement: was handed to run_coroutine once and removed from the event)
#[kani::proof]
#[kani::stub(crate::scheduler::get_scheduler, sup::get_scheduler_stub)]
#[kani::stub(<crate::park::Park as std::ops::Drop>::drop, sup::park_drop_noop)]
#[kani::stub(may_queue::mpsc::Queue::push, sup::mq_push_stub)]
#[kani::stub(may_queue::mpsc::Queue::pop, sup::mq_pop_stub)]
#[kani::stub(crate::sync::blocking::Blocker::park, park_stub)]
#[kani::stub(crate::sync::blocking::Blocker::unpark, unpark_stub)]
#[kani::stub(crate::coroutine_impl::run_coroutine, sup::run_coroutine_stub)]
#[kani::stub(crate::cqueue::Cqueue::check_panic, check_panic_stub)]
#[kani::unwind(3)]
fn c16_1a_poll_is_woken_by_the_event_2() {
    poll_is_woken_by_the_event::<2>();
}

//@ obligation: C16.1.3
//@ kind: K3
//@ complete: yes
//@ functions: Cqueue::poll, EventSender::subscribe, Event::continue_bottom
//@ statement: poll(None) with one select coroutine alive whose send reaches subscribe [right after the re-check found nothing, before the poller parks]: the poller never parks unregistered or with the event already queued; poll returns
//@ statement: exactly that event (token, extra), and at that moment its bottom half has been started exactly once (the coroutine inside the event
//@ statement: was handed to run_coroutine once and removed from the event)
#[kani::proof]
#[kani::stub(crate::scheduler::get_scheduler, sup::get_scheduler_stub)]
#[kani::stub(<crate::park::Park as std::ops::Drop>::drop, sup::park_drop_noop)]
#[kani::stub(may_queue::mpsc::Queue::push, sup::mq_push_stub)]
#[kani::stub(may_queue::mpsc::Queue::pop, sup::mq_pop_stub)]
#[kani::stub(crate::sync::blocking::Blocker::park, park_stub)]
#[kani::stub(crate::sync::blocking::Blocker::unpark, unpark_stub)]
#[kani::stub(crate::coroutine_impl::run_coroutine, sup::run_coroutine_stub)]
#[kani::stub(crate::cqueue::Cqueue::check_panic, check_panic_stub)]
#[kani::unwind(3)]
fn c16_1a_poll_is_woken_by_the_event_3() {
    poll_is_woken_by_the_event::<3>();
}

//@ obligation: C16.1.4
//@ tier: thorough
//@ kind: K3
//@ complete: yes
//@ functions: Cqueue::poll, EventSender::subscribe, Event::continue_bottom
//@ statement: poll(None) with one select coroutine alive whose send reaches subscribe [while the poller is parked]: the poller never parks unregistered or with the event already queued; poll returns
//@ statement: exactly that event (token, extra), and at that moment its bottom half has been started exactly once (the coroutine inside the event
//@ statement: was handed to run_coroutine once and removed from the event)
#[kani::proof]
#[kani::stub(crate::scheduler::get_scheduler, sup::get_scheduler_stub)]
#[kani::stub(<crate::park::Park as std::ops::Drop>::drop, sup::park_drop_noop)]
#[kani::stub(may_queue::mpsc::Queue::push, sup::mq_push_stub)]
#[kani::stub(may_queue::mpsc::Queue::pop, sup::mq_pop_stub)]
#[kani::stub(crate::sync::blocking::Blocker::park, park_stub)]
#[kani::stub(crate::sync::blocking::Blocker::unpark, unpark_stub)]
#[kani::stub(crate::coroutine_impl::run_coroutine, sup::run_coroutine_stub)]
#[kani::stub(crate::cqueue::Cqueue::check_panic, check_panic_stub)]
#[kani::unwind(3)]
fn c16_1a_poll_is_woken_by_the_event_4() {
    poll_is_woken_by_the_event::<4>();
}


fn poll_sees_the_last_selector_end<const WHEN: usize>() {
    sup::gq_reset();
    sup::trace_reset();
    sup::scheduler_reset();
    let cq = mk_cqueue(1);
    unsafe {
        ENV_PENDING = 2;
        ENV_WHEN = WHEN;
        sup::ON_Q_POP = Some(env_step);
        sup::ON_Q_POP_NONE = Some(env_step);
    }
    let r = cq.poll(None);
    assert!(unsafe { ENV_DONE }, "[C16.1-no-finished-while-alive] poll reported Finished although a select coroutine is still alive");
    assert!(r.is_err() && r.err() == Some(PollError::Finished), "[C16.1-finished] after the last select coroutine ended poll reports Finished");
    assert!(cq.cnt.load(Ordering::Relaxed) == 0, "[C16.1-finished-iff-zero] Finished is reported only when no select coroutine is left");
    assert!(sup::count(sup::E_RUN) == 0, "[C16.2-done-has-no-bottom] a Done event has no bottom half");
    if sup::gq_len() == 0 {
        assert!(unsafe { CHECK_PANICS } == 1 && unsafe { LAST_CHECK_PANIC_ID } == 0, "[C16.2-done-checks-panic] a consumed Done event triggers the panic check of its selector exactly once");
    } else {
        // the Done event is still queued (the poller saw the counter drop first); it is left for the final drain
        assert!(unsafe { CHECK_PANICS } == 0, "[C16.2-done-checks-panic] a consumed Done event triggers the panic check of its selector exactly once");
    }
}

//@ obligation: C16.1b.0
//@ tier: thorough
//@ kind: K3
//@ complete: yes
//@ functions: Cqueue::poll, EventSender::drop
//@ statement: poll(None) with the LAST select coroutine ending (EventSender dropped: Done event, counter, wake-up) [before the poller's first look at the queue]: the
//@ statement: poller never sleeps through it; the Done event is not returned to the caller but triggers check_panic for that selector exactly once,
//@ statement: and poll reports Finished only with the counter at zero
#[kani::proof]
#[kani::stub(crate::scheduler::get_scheduler, sup::get_scheduler_stub)]
#[kani::stub(<crate::park::Park as std::ops::Drop>::drop, sup::park_drop_noop)]
#[kani::stub(may_queue::mpsc::Queue::push, sup::mq_push_stub)]
#[kani::stub(may_queue::mpsc::Queue::pop, sup::mq_pop_stub)]
#[kani::stub(crate::sync::blocking::Blocker::park, park_stub)]
#[kani::stub(crate::sync::blocking::Blocker::unpark, unpark_stub)]
#[kani::stub(crate::coroutine_impl::run_coroutine, sup::run_coroutine_stub)]
#[kani::stub(crate::cqueue::Cqueue::check_panic, check_panic_stub)]
#[kani::unwind(4)]
fn c16_1b_poll_sees_the_last_selector_end_0() {
    poll_sees_the_last_selector_end::<0>();
}

//@ obligation: C16.1b.1
//@ kind: K3
//@ complete: yes
//@ functions: Cqueue::poll, EventSender::drop
//@ statement: poll(None) with the LAST select coroutine ending (EventSender dropped: Done event, counter, wake-up) [right after the poller's first look found nothing]: the
//@ statement: poller never sleeps through it; the Done event is not returned to the caller but triggers check_panic for that selector exactly once,
//@ statement: and poll reports Finished only with the counter at zero
#[kani::proof]
#[kani::stub(crate::scheduler::get_scheduler, sup::get_scheduler_stub)]
#[kani::stub(<crate::park::Park as std::ops::Drop>::drop, sup::park_drop_noop)]
#[kani::stub(may_queue::mpsc::Queue::push, sup::mq_push_stub)]
#[kani::stub(may_queue::mpsc::Queue::pop, sup::mq_pop_stub)]
#[kani::stub(crate::sync::blocking::Blocker::park, park_stub)]
#[kani::stub(crate::sync::blocking::Blocker::unpark, unpark_stub)]
#[kani::stub(crate::coroutine_impl::run_coroutine, sup::run_coroutine_stub)]
#[kani::stub(crate::cqueue::Cqueue::check_panic, check_panic_stub)]
#[kani::unwind(4)]
fn c16_1b_poll_sees_the_last_selector_end_1() {
    poll_sees_the_last_selector_end::<1>();
}

//@ obligation: C16.1b.2
//@ tier: thorough
//@ mem: 30
//@ timeout: 900
//@ kind: K3
//@ complete: yes
//@ functions: Cqueue::poll, EventSender::drop
//@ statement: poll(None) with the LAST select coroutine ending (EventSender dropped: Done event, counter, wake-up) [between the poller's registration and its re-check]: the
//@ statement: poller never sleeps through it; the Done event is not returned to the caller but triggers check_panic for that selector exactly once,
//@ statement: and poll reports Finished only with the counter at zero
#[kani::proof]
#[kani::stub(crate::scheduler::get_scheduler, sup::get_scheduler_stub)]
#[kani::stub(<crate::park::Park as std::ops::Drop>::drop, sup::park_drop_noop)]
#[kani::stub(may_queue::mpsc::Queue::push, sup::mq_push_stub)]
#[kani::stub(may_queue::mpsc::Queue::pop, sup::mq_pop_stub)]
#[kani::stub(crate::sync::blocking::Blocker::park, park_stub)]
#[kani::stub(crate::sync::blocking::Blocker::unpark, unpark_stub)]
#[kani::stub(crate::coroutine_impl::run_coroutine, sup::run_coroutine_stub)]
#[kani::stub(crate::cqueue::Cqueue::check_panic, check_panic_stub)]
#[kani::unwind(4)]
fn c16_1b_poll_sees_the_last_selector_end_2() {
    poll_sees_the_last_selector_end::<2>();
}

//@ obligation: C16.1b.3
//@ kind: K3
//@ complete: yes
//@ functions: Cqueue::poll, EventSender::drop
//@ statement: poll(None) with the LAST select coroutine ending (EventSender dropped: Done event, counter, wake-up) [right after the re-check found nothing, before the poller parks]: the
//@ statement: poller never sleeps through it; the Done event is not returned to the caller but triggers check_panic for that selector exactly once,
//@ statement: and poll reports Finished only with the counter at zero
#[kani::proof]
#[kani::stub(crate::scheduler::get_scheduler, sup::get_scheduler_stub)]
#[kani::stub(<crate::park::Park as std::ops::Drop>::drop, sup::park_drop_noop)]
#[kani::stub(may_queue::mpsc::Queue::push, sup::mq_push_stub)]
#[kani::stub(may_queue::mpsc::Queue::pop, sup::mq_pop_stub)]
#[kani::stub(crate::sync::blocking::Blocker::park, park_stub)]
#[kani::stub(crate::sync::blocking::Blocker::unpark, unpark_stub)]
#[kani::stub(crate::coroutine_impl::run_coroutine, sup::run_coroutine_stub)]
#[kani::stub(crate::cqueue::Cqueue::check_panic, check_panic_stub)]
#[kani::unwind(4)]
fn c16_1b_poll_sees_the_last_selector_end_3() {
    poll_sees_the_last_selector_end::<3>();
}

//@ obligation: C16.1b.4
//@ tier: thorough
//@ kind: K3
//@ complete: yes
//@ functions: Cqueue::poll, EventSender::drop
//@ statement: poll(None) with the LAST select coroutine ending (EventSender dropped: Done event, counter, wake-up) [while the poller is parked]: the
//@ statement: poller never sleeps through it; the Done event is not returned to the caller but triggers check_panic for that selector exactly once,
//@ statement: and poll reports Finished only with the counter at zero
#[kani::proof]
#[kani::stub(crate::scheduler::get_scheduler, sup::get_scheduler_stub)]
#[kani::stub(<crate::park::Park as std::ops::Drop>::drop, sup::park_drop_noop)]
#[kani::stub(may_queue::mpsc::Queue::push, sup::mq_push_stub)]
#[kani::stub(may_queue::mpsc::Queue::pop, sup::mq_pop_stub)]
#[kani::stub(crate::sync::blocking::Blocker::park, park_stub)]
#[kani::stub(crate::sync::blocking::Blocker::unpark, unpark_stub)]
#[kani::stub(crate::coroutine_impl::run_coroutine, sup::run_coroutine_stub)]
#[kani::stub(crate::cqueue::Cqueue::check_panic, check_panic_stub)]
#[kani::unwind(4)]
fn c16_1b_poll_sees_the_last_selector_end_4() {
    poll_sees_the_last_selector_end::<4>();
}


static mut PUSHED_AT_UNPARK: usize = 0;
static mut CNT_AT_UNPARK: usize = 0;
fn unpark_samples(_b: &Blocker) {
    unsafe {
        UNPARKS += 1;
        PUSHED_AT_UNPARK = sup::Q_PUSHES;
        CNT_AT_UNPARK = (*CQ).cnt.load(Ordering::Relaxed);
    }
}

//@ obligation: C16.3a
//@ kind: K3
//@ complete: yes
//@ functions: EventSender::subscribe, EventSender::drop
//@ statement: the select-coroutine side: subscribe pushes the event WITH the suspended coroutine inside before it wakes a registered poller (exactly
//@ statement: once); the EventSender's drop pushes the Done event and decrements the live counter before it wakes the poller
#[kani::proof]
#[kani::stub(crate::scheduler::get_scheduler, sup::get_scheduler_stub)]
#[kani::stub(<crate::park::Park as std::ops::Drop>::drop, sup::park_drop_noop)]
#[kani::stub(may_queue::mpsc::Queue::push, sup::mq_push_stub)]
#[kani::stub(may_queue::mpsc::Queue::pop, sup::mq_pop_stub)]
#[kani::stub(crate::sync::blocking::Blocker::unpark, unpark_samples)]
#[kani::unwind(3)]
fn c16_3a_sender_pushes_before_waking() {
    sup::gq_reset();
    let cq = mk_cqueue(1);
    cq.to_wake.store(Arc::new(Blocker::new(false)));
    let mut sender = EventSender { id: 3, token: 9, extra: AtomicUsize::new(4), cqueue: cq };
    let co: CoroutineImpl = generator::shim_new_empty(0x1000);
    let id = co.shim_id();
    EventSource::subscribe(&mut sender, co);
    assert!(unsafe { UNPARKS } == 1 && unsafe { PUSHED_AT_UNPARK } == 1, "[C16.3-push-before-wake] the poller is woken before the event is in the queue (it would find nothing and park again)");
    let ev = cq.ev_queue.pop().unwrap();
    assert!(ev.token == 9 && ev.extra == 4 && ev.id == 3 && ev.kind == EventKind::Normal, "[C16.3-event-data] the event carries the sender's token, extra data and id");
    assert!(ev.co.as_ref().map(|c| c.shim_id()) == Some(id), "[C16.3-co-inside] the suspended select coroutine travels inside its event");
    std::mem::forget(ev);
    // the select coroutine ends
    cq.to_wake.store(Arc::new(Blocker::new(false)));
    drop(sender);
    assert!(unsafe { UNPARKS } == 2 && unsafe { PUSHED_AT_UNPARK } == 2 && unsafe { CNT_AT_UNPARK } == 0, "[C16.3-done-before-wake] the Done event is queued and the live counter decremented before the poller is woken");
    let ev = cq.ev_queue.pop().unwrap();
    assert!(ev.kind == EventKind::Done && ev.id == 3 && ev.co.is_none(), "[C16.3-done-event] the end of a select coroutine is announced by a Done event without coroutine");
}

//@ obligation: C16.canary
//@ kind: K3
//@ canary: yes
//@ functions: Cqueue::poll
//@ statement: canary — claims poll never parks; must FAIL
#[kani::proof]
#[kani::stub(crate::scheduler::get_scheduler, sup::get_scheduler_stub)]
#[kani::stub(<crate::park::Park as std::ops::Drop>::drop, sup::park_drop_noop)]
#[kani::stub(may_queue::mpsc::Queue::push, sup::mq_push_stub)]
#[kani::stub(may_queue::mpsc::Queue::pop, sup::mq_pop_stub)]
#[kani::stub(crate::sync::blocking::Blocker::park, park_stub)]
#[kani::stub(crate::sync::blocking::Blocker::unpark, unpark_stub)]
#[kani::stub(crate::coroutine_impl::run_coroutine, sup::run_coroutine_stub)]
#[kani::stub(crate::cqueue::Cqueue::check_panic, check_panic_stub)]
#[kani::unwind(3)]
fn c16_canary() {
    sup::gq_reset();
    sup::trace_reset();
    sup::scheduler_reset();
    let cq = mk_cqueue(1);
    unsafe {
        ENV_PENDING = 1;
        ENV_WHEN = 4;
        sup::ON_Q_POP = Some(env_step);
        sup::ON_Q_POP_NONE = Some(env_step);
    }
    let r = cq.poll(None);
    std::mem::forget(r);
    assert!(unsafe { PARKS } == 0, "[C16.canary] canary (expected to fail)");
}
