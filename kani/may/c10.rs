//! C10 — Semphore permits are conserved. Child module of `sync/semphore.rs`.
//! (SyncFlag is in c10_flag.rs.)
//@ file-needs: blk
//@ file-inject: src/sync/semphore.rs
//@ file-mirror: src/sync/semphore.rs :: pub fn post(&self) { let cnt = self.cnt.fetch_add(1, Ordering::SeqCst); assert!(cnt < isize::MAX); // try to wakeup one waiter first if cnt < 0 { self.wakeup_one(); } }
//@ file-property: C10
use super::*;
use crate::coroutine_impl::vk_support as sup;
use crate::sync::blocking::vk_blk as env;

/// the body of `Semphore::post` for callers that stub `post` in order to observe it (verbatim copy; the real
/// function is under contract in C10.1a / C10.3a)
pub(crate) fn real_post(s: &Semphore) {
    let cnt = s.cnt.fetch_add(1, Ordering::SeqCst);
    assert!(cnt < isize::MAX);
    if cnt < 0 {
        s.wakeup_one();
    }
}

static mut POSTS: usize = 0;
fn post_count_stub(_s: &Semphore) {
    unsafe { POSTS += 1 };
}

static mut SEM_CNT: *const AtomicIsize = std::ptr::null();
static mut CNT_AT_PUSH: isize = 0;
fn sample_cnt_at_push() {
    unsafe { CNT_AT_PUSH = (*SEM_CNT).load(Ordering::SeqCst) };
}

//@ obligation: C10.1a
//@ kind: K2
//@ complete: yes
//@ functions: Semphore::new, Semphore::try_wait, Semphore::post, Semphore::get_value
//@ statement: one-step contracts from EVERY non-negative value v (no waiter registered): get_value = v; try_wait returns true iff v > 0 and then
//@ statement: the value is v-1, otherwise nothing changes; post makes it v+1 and wakes nobody. By induction the value of a semaphore nobody blocks
//@ statement: on is initial + posts - successful waits and the number of successful waits never exceeds initial + posts
#[kani::proof]
#[kani::stub(<crate::park::Park as std::ops::Drop>::drop, sup::park_drop_noop)]
#[kani::stub(crate::scheduler::get_scheduler, sup::get_scheduler_stub)]
#[kani::stub(crossbeam::queue::SegQueue::push, sup::seg_push_stub)]
#[kani::stub(crossbeam::queue::SegQueue::pop, sup::seg_pop_stub)]
#[kani::unwind(3)]
fn c10_1a_value_accounting_step() {
    sup::gq_reset();
    let v: usize = kani::any();
    kani::assume(v < isize::MAX as usize - 1);
    let s: &'static Semphore = Box::leak(Box::new(Semphore::new(v)));
    assert!(s.get_value() == v, "[C10.1-get-value] get_value reports the number of permits");
    let op: bool = kani::any();
    if op {
        let ok = s.try_wait();
        assert!(ok == (v > 0), "[C10.1-try-wait-iff] try_wait succeeds iff a permit is available");
        assert!(s.get_value() == if ok { v - 1 } else { v }, "[C10.1-try-wait-delta] a successful try_wait takes exactly one permit, a failing one none");
    } else {
        s.post();
        assert!(s.get_value() == v + 1, "[C10.1-post-delta] post adds exactly one permit");
    }
    assert!(unsafe { sup::Q_POPS } == 0 && unsafe { sup::Q_PUSHES } == 0, "[C10.1-no-queue] with non-negative value nobody is registered or woken");
    kani::cover!(v == 0 && op, "try_wait on zero");
}

//@ obligation: C10.2a
//@ kind: K3
//@ complete: yes
//@ functions: Semphore::wait_timeout_impl, Semphore::wakeup_one
//@ statement: a blocking wait registers its blocker BEFORE it decrements the value; if the decrement found a permit (a post slipped in) exactly one
//@ statement: registered waiter is popped and unparked before parking, otherwise none; it returns true only after park returned Ok
#[kani::proof]
#[kani::stub(<crate::park::Park as std::ops::Drop>::drop, sup::park_drop_noop)]
#[kani::stub(crate::scheduler::get_scheduler, sup::get_scheduler_stub)]
#[kani::stub(crossbeam::queue::SegQueue::push, sup::seg_push_stub)]
#[kani::stub(crossbeam::queue::SegQueue::pop, sup::seg_pop_stub)]
#[kani::stub(crate::sync::blocking::SyncBlocker::current, env::current_env)]
#[kani::stub(crate::sync::blocking::SyncBlocker::park, env::park_env)]
#[kani::stub(crate::sync::blocking::SyncBlocker::is_unparked, env::is_unparked_env)]
#[kani::stub(crate::sync::blocking::SyncBlocker::set_release, env::set_release_env)]
#[kani::stub(crate::sync::blocking::SyncBlocker::take_release, env::take_release_env)]
#[kani::stub(crate::sync::blocking::Blocker::unpark, sup::blocker_unpark_count)]
#[kani::unwind(4)]
fn c10_2a_wait_registers_before_decrement() {
    sup::gq_reset();
    unsafe {
        sup::BLOCKER_UNPARKS = 0;
        sup::ON_Q_PUSH = Some(post_slips_in_then_sample);
    }
    env::env_reset(kani::any(), false, false, 1);
    let v0: isize = kani::any();
    kani::assume(v0 <= 0 && v0 >= -2);
    let s: &'static Semphore = Box::leak(Box::new(Semphore::new(0)));
    s.cnt.store(v0, Ordering::SeqCst);
    unsafe {
        SEM_CNT = &s.cnt;
        POST_SLIPS_IN = v0 == 0 && kani::any();
    }
    let slipped = unsafe { POST_SLIPS_IN };
    let r = s.wait_timeout_impl(None);
    let at_push = unsafe { CNT_AT_PUSH };
    assert!(unsafe { sup::Q_PUSHES } == 1, "[C10.2-registered] the waiter registers exactly once");
    assert!(at_push == if slipped { 1 } else { v0 }, "[C10.2-register-before-decrement] the value must not be decremented before the blocker is in the wait queue");
    if slipped {
        assert!(unsafe { sup::Q_POPS } == 1 && unsafe { sup::BLOCKER_UNPARKS } == 1, "[C10.2-self-service] finding a permit, the caller pops and unparks exactly one waiter");
    } else {
        assert!(unsafe { sup::Q_POPS } == 0 && unsafe { sup::BLOCKER_UNPARKS } == 0, "[C10.2-no-wake] without a permit nobody is woken");
    }
    assert!(r && unsafe { env::PARK_LAST } == 0 && unsafe { env::PARKS } == 1, "[C10.2-true-after-token] wait returns true only after park returned Ok");
    assert!(s.cnt.load(Ordering::SeqCst) == at_push - 1, "[C10.2-delta] a blocking wait decrements the value exactly once");
    kani::cover!(slipped, "a post slipped in between try_wait and the registration");
    kani::cover!(!slipped, "no permit");
}

static mut POST_SLIPS_IN: bool = false;
fn post_slips_in_then_sample() {
    unsafe {
        if POST_SLIPS_IN {
            // a concurrent post ran to completion just before: value 0 -> 1, nobody to wake yet
            (*SEM_CNT).store(1, Ordering::SeqCst);
        }
    }
    sample_cnt_at_push();
}

//@ obligation: C10.3a
//@ kind: K3
//@ complete: yes
//@ functions: Semphore::post, Semphore::wakeup_one
//@ statement: post() for every value -2..=1 with the matching number of registered waiters, the first of which may have abandoned its wait (release flag):
//@ statement: value < 0 => exactly one waiter is popped and unparked and, iff it had abandoned, the permit is posted once more on its behalf;
//@ statement: value >= 0 => nobody is popped; the value always grows by one per post
#[kani::proof]
#[kani::stub(<crate::park::Park as std::ops::Drop>::drop, sup::park_drop_noop)]
#[kani::stub(crate::scheduler::get_scheduler, sup::get_scheduler_stub)]
#[kani::stub(crossbeam::queue::SegQueue::push, sup::seg_push_stub)]
#[kani::stub(crossbeam::queue::SegQueue::pop, sup::seg_pop_stub)]
#[kani::stub(crate::sync::blocking::Blocker::unpark, sup::blocker_unpark_count)]
#[kani::unwind(4)]
fn c10_3a_post_wakes_exactly_one() {
    sup::gq_reset();
    unsafe { sup::BLOCKER_UNPARKS = 0 };
    let v0: isize = kani::any();
    kani::assume(v0 >= -2 && v0 <= 1);
    let s: &'static Semphore = Box::leak(Box::new(Semphore::new(0)));
    s.cnt.store(v0, Ordering::SeqCst);
    let w1 = SyncBlocker::current();
    let w2 = SyncBlocker::current();
    let r1: bool = kani::any();
    if r1 {
        w1.set_release();
    }
    if v0 <= -1 {
        s.to_wake.push(w1.clone());
    }
    if v0 <= -2 {
        s.to_wake.push(w2.clone());
    }
    unsafe {
        sup::Q_PUSHES = 0;
    }
    s.post();
    let cnt = s.cnt.load(Ordering::SeqCst);
    let pops = unsafe { sup::Q_POPS };
    let unparks = unsafe { sup::BLOCKER_UNPARKS };
    if v0 >= 0 {
        assert!(pops == 0 && unparks == 0 && cnt == v0 + 1, "[C10.3-no-waiter] post without waiters only adds a permit");
    } else if !r1 {
        assert!(pops == 1 && unparks == 1 && w1.is_unparked() && cnt == v0 + 1, "[C10.3-wake-one] post with waiters pops and unparks exactly one and adds one");
        assert!(!w2.is_unparked(), "[C10.3-one-only] no second waiter is woken");
    } else {
        assert!(w1.is_unparked() && !w1.take_release(), "[C10.3-release-consumed] the abandoned waiter is unparked and its release flag consumed");
        assert!(cnt == v0 + 2, "[C10.3-repost] the permit given to an abandoned waiter is posted again exactly once");
        if v0 == -1 {
            assert!(pops == 1 && unparks == 1, "[C10.3-repost-free] with no further waiter the permit stays in the value");
        } else {
            assert!(pops == 2 && unparks == 2 && w2.is_unparked(), "[C10.3-repost-next] the re-posted permit wakes the next waiter");
        }
    }
    kani::cover!(v0 == -2 && r1, "re-post reaches the next waiter");
}

//@ obligation: C10.4a
//@ property: C10 C09
//@ kind: K3
//@ complete: yes
//@ functions: Semphore::wait_timeout_impl
//@ statement: a wait that times out or is cancelled, against every interleaving of one concurrent wakeup_one with the abort sequence: a permit that
//@ statement: raced with the abort is posted back exactly once — by the waiter or by the waker — and never when no permit was handed over;
//@ statement: a time-out returns false; the cancel panic is raised only after the accounting is settled; Ok returns true and keeps the permit
#[kani::proof]
#[kani::stub(<crate::park::Park as std::ops::Drop>::drop, sup::park_drop_noop)]
#[kani::stub(crate::scheduler::get_scheduler, sup::get_scheduler_stub)]
#[kani::stub(crossbeam::queue::SegQueue::push, sup::seg_push_stub)]
#[kani::stub(crossbeam::queue::SegQueue::pop, sup::seg_pop_stub)]
#[kani::stub(crate::sync::blocking::SyncBlocker::current, env::current_env)]
#[kani::stub(crate::sync::blocking::SyncBlocker::park, env::park_env)]
#[kani::stub(crate::sync::blocking::SyncBlocker::is_unparked, env::is_unparked_env)]
#[kani::stub(crate::sync::blocking::SyncBlocker::set_release, env::set_release_env)]
#[kani::stub(crate::sync::blocking::SyncBlocker::take_release, env::take_release_env)]
#[kani::stub(crate::sync::semphore::Semphore::post, post_count_stub)]
#[kani::stub(crate::cancel::trigger_cancel_panic, sup::cancel_panic_stub)]
#[kani::unwind(5)]
fn c10_4a_aborted_wait_returns_the_permit_once() {
    sup::gq_reset();
    unsafe {
        POSTS = 0;
        sup::ON_CANCEL_PANIC = Some(c10_4a_settle);
    }
    let _co = sup::enter_coroutine();
    env::env_reset(kani::any(), true, true, 1);
    let s: &'static Semphore = Box::leak(Box::new(Semphore::new(0)));
    let r = s.wait_timeout_impl(Some(Duration::from_millis(5)));
    match unsafe { env::PARK_LAST } {
        0 => {
            assert!(r, "[C10.4-ok-true] a wait that got its permit returns true");
            env::env_finish();
            assert!(unsafe { POSTS } == 0 && !unsafe { env::WAKER_FORWARDED }, "[C10.4-kept] a successful wait keeps its permit (nobody posts it back)");
        }
        1 => {
            assert!(!r, "[C10.4-timeout-false] a timed-out wait returns false");
            c10_4a_settle();
        }
        _ => assert!(false, "[C10.4-cancel-panics] a cancelled wait must raise the cancel panic"),
    }
    kani::cover!(unsafe { env::PARK_LAST } == 1, "time-out path");
}

fn c10_4a_settle() {
    kani::cover!(unsafe { env::PARK_LAST } == 2, "cancel path");
    env::env_finish();
    let by_waiter = unsafe { POSTS };
    let by_waker = if unsafe { env::WAKER_FORWARDED } { 1 } else { 0 };
    if unsafe { env::WAKER_EXISTS } {
        assert!(by_waiter + by_waker == 1, "[C10.4-forward-once] a permit that raced with the time-out/cancel must be posted back exactly once");
    } else {
        assert!(by_waiter + by_waker == 0, "[C10.4-no-phantom] without a hand-over no permit may be created");
    }
    kani::cover!(by_waiter == 1, "posted back by the waiter");
    kani::cover!(by_waker == 1, "posted back by the waker");
}

//@ obligation: C10.canary
//@ kind: K3
//@ canary: yes
//@ functions: Semphore::wait_timeout_impl
//@ statement: canary — claims an aborted wait never posts; must FAIL
#[kani::proof]
#[kani::stub(<crate::park::Park as std::ops::Drop>::drop, sup::park_drop_noop)]
#[kani::stub(crate::scheduler::get_scheduler, sup::get_scheduler_stub)]
#[kani::stub(crossbeam::queue::SegQueue::push, sup::seg_push_stub)]
#[kani::stub(crossbeam::queue::SegQueue::pop, sup::seg_pop_stub)]
#[kani::stub(crate::sync::blocking::SyncBlocker::current, env::current_env)]
#[kani::stub(crate::sync::blocking::SyncBlocker::park, env::park_env)]
#[kani::stub(crate::sync::blocking::SyncBlocker::is_unparked, env::is_unparked_env)]
#[kani::stub(crate::sync::blocking::SyncBlocker::set_release, env::set_release_env)]
#[kani::stub(crate::sync::blocking::SyncBlocker::take_release, env::take_release_env)]
#[kani::stub(crate::sync::semphore::Semphore::post, post_count_stub)]
#[kani::stub(crate::cancel::trigger_cancel_panic, sup::cancel_panic_stub)]
#[kani::unwind(5)]
fn c10_canary() {
    sup::gq_reset();
    unsafe {
        POSTS = 0;
        sup::ON_CANCEL_PANIC = None;
    }
    let _co = sup::enter_coroutine();
    env::env_reset(true, false, true, 1);
    let s: &'static Semphore = Box::leak(Box::new(Semphore::new(0)));
    let _ = s.wait_timeout_impl(Some(Duration::from_millis(5)));
    assert!(unsafe { POSTS } == 0, "[C10.canary] canary (expected to fail)");
}
