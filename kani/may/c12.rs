//! C12 — RwLock: writers exclusive; every guard handed out (Ok or inside a Poisoned error) releases exactly
//! what it acquired. Child module of `sync/rwlock.rs`.
//@ file-needs: blk pz cz c05
//@ file-inject: src/sync/rwlock.rs
//@ file-property: C12
use super::*;
use crate::coroutine_impl::vk_support as sup;
use crate::sync::blocking::vk_blk as env;
use crate::sync::poison::vk_pz as pz;

fn readers<T>(l: &RwLock<T>) -> usize {
    crate::sync::mutex::vk_c05::peek_data(&l.rlock)
}

fn cnt<T>(l: &RwLock<T>) -> usize {
    l.cnt.load(Ordering::SeqCst)
}

/// the guard of a non-poisoned result (Poisoned results end the path inside `poison_error_new_stub`)
fn guard_of<G>(r: TryLockResult<G>) -> Option<G> {
    match r {
        Ok(g) => Some(g),
        Err(_) => None,
    }
}

fn guard_of_lock<G>(r: LockResult<G>) -> G {
    match r {
        Ok(g) => g,
        Err(_) => {
            kani::assume(false);
            loop {}
        }
    }
}

static mut RW: *const RwLock<u8> = std::ptr::null();
// expected counters at the moment a guard is wrapped into a Poisoned error
static mut EXP_READERS: usize = 0;
static mut EXP_HELD: bool = false;
static mut GUARD_ALLOWED: bool = false;

fn c12_1a_at_poison_error() {
    kani::cover!(true, "a guard is handed out inside a Poisoned error");
    let l = unsafe { &*RW };
    assert!(unsafe { GUARD_ALLOWED }, "[C12.1-poisoned-iff] a guard was handed out inside a Poisoned error although the model forbids it");
    assert!(readers(l) == unsafe { EXP_READERS }, "[C12.1-guard-counted] every read guard handed out (also inside a Poisoned error) is counted as a reader");
    assert!(cnt(l) == if unsafe { EXP_HELD } { 1 } else { 0 }, "[C12.1-lock-word] the lock word is held iff some guard is alive");
}

//@ obligation: C12.1a
//@ kind: K2
//@ complete: yes
//@ functions: RwLock::try_read, RwLock::try_write, RwLock::read, RwLock::write, RwLock::read_unlock, RwLock::write_unlock, RwLock::try_lock, RwLock::unlock, RwLockReadGuard::drop, RwLockWriteGuard::drop
//@ statement: for every abstract state {free, 1 reader, 2 readers, writer} x {clean, poisoned} and every non-blocking operation {try_read, try_write,
//@ statement: read (no writer), write (free)}: a guard is produced — in Ok when clean, inside the Poisoned error when poisoned — iff the model allows
//@ statement: it (readers share, a writer excludes everybody); at the moment the guard exists the reader count and the lock word account for exactly
//@ statement: the guards alive (clean: also after dropping all guards the counters are zero and try_write succeeds)
#[kani::proof]
#[kani::stub(crate::scheduler::get_scheduler, sup::get_scheduler_stub)]
#[kani::stub(<crate::park::Park as std::ops::Drop>::drop, sup::park_drop_noop)]
#[kani::stub(crossbeam::queue::SegQueue::push, sup::seg_push_stub)]
#[kani::stub(crossbeam::queue::SegQueue::pop, sup::seg_pop_stub)]
#[kani::stub(may_queue::mpsc::Queue::push, sup::mq_push_stub)]
#[kani::stub(may_queue::mpsc::Queue::pop, sup::mq_pop_stub)]
#[kani::stub(crate::sync::blocking::SyncBlocker::park, env::park_env)]
#[kani::stub(std::sync::PoisonError::new, sup::poison_error_new_stub)]
#[kani::stub(crate::sync::blocking::Blocker::unpark, sup::blocker_unpark_count)]
#[kani::unwind(3)]
fn c12_1a_guard_accounting_all_states() {
    sup::gq_reset();
    env::env_reset(false, false, false, 0);
    let l: &'static RwLock<u8> = Box::leak(Box::new(RwLock::new(0)));
    unsafe {
        RW = l;
        sup::ON_POISON_ERROR = None;
        sup::POISON_ERRORS = 0;
    }
    // ---- build the state (while clean), then optionally poison ----
    let st: u8 = kani::any();
    kani::assume(st <= 3); // 0 free, 1 one reader, 2 two readers, 3 writer
    let mut r1 = None;
    let mut r2 = None;
    let mut w = None;
    if st == 1 || st == 2 {
        r1 = Some(guard_of_lock(l.read()));
    }
    if st == 2 {
        r2 = Some(guard_of_lock(l.read()));
    }
    if st == 3 {
        w = Some(guard_of_lock(l.write()));
    }
    let n_readers = if st == 3 { 0 } else { st as usize };
    assert!(readers(l) == n_readers && cnt(l) == if st == 0 { 0 } else { 1 }, "[C12.1-state] the counters account for exactly the guards alive");
    let poisoned: bool = kani::any();
    pz::set_poisoned(&l.poison, poisoned);

    // ---- one operation ----
    let op: u8 = kani::any();
    kani::assume(op <= 3); // 0 try_read, 1 try_write, 2 read, 3 write
    // blocking calls only where they do not block
    kani::assume(op != 2 || st != 3);
    kani::assume(op != 3 || st == 0);
    let reader_allowed = st != 3;
    let writer_allowed = st == 0;
    let is_read = op == 0 || op == 2;
    unsafe {
        GUARD_ALLOWED = if is_read { reader_allowed } else { writer_allowed };
        EXP_READERS = n_readers + if is_read { 1 } else { 0 };
        EXP_HELD = true;
        sup::ON_POISON_ERROR = Some(c12_1a_at_poison_error);
    }
    let mut nr = None;
    let mut nw = None;
    match op {
        0 => nr = guard_of(l.try_read()),
        1 => nw = guard_of(l.try_write()),
        2 => nr = Some(guard_of_lock(l.read())),
        _ => nw = Some(guard_of_lock(l.write())),
    }
    // only non-poisoned results get here
    assert!(unsafe { env::PARKS } == 0, "[C12.1-no-block] the operation must not block in this state");
    if is_read {
        assert!(nr.is_some() == (reader_allowed && !poisoned), "[C12.1-read-iff] a read guard is handed out in Ok iff no writer holds the lock and the lock is clean");
    } else {
        assert!(nw.is_some() == (writer_allowed && !poisoned), "[C12.1-write-iff] a write guard is handed out in Ok iff the lock is free and clean");
    }
    if poisoned && unsafe { GUARD_ALLOWED } {
        assert!(false, "[C12.1-poison-report] on a poisoned lock an allowed guard must come inside the Poisoned error");
    }
    // ---- accounting with the new guard alive ----
    let readers_now = n_readers + if nr.is_some() { 1 } else { 0 };
    let held_now = st != 0 || nr.is_some() || nw.is_some();
    assert!(readers(l) == readers_now, "[C12.1-guard-counted] every read guard handed out is counted as a reader");
    assert!(cnt(l) == if held_now { 1 } else { 0 }, "[C12.1-lock-word] the lock word is held iff some guard is alive");
    // ---- drop everything: the lock must be free again ----
    unsafe { sup::ON_POISON_ERROR = None };
    drop(nr);
    drop(nw);
    drop(r1);
    drop(r2);
    drop(w);
    assert!(readers(l) == 0 && cnt(l) == 0, "[C12.1-all-released] after all guards are dropped nothing is held");
    if !poisoned {
        let again = guard_of(l.try_write());
        assert!(again.is_some(), "[C12.1-free-again] after all guards are dropped a try_write obtains the lock");
        std::mem::forget(again);
    }
    kani::cover!(!poisoned && op == 0 && st == 1, "try_read next to a reader");
    kani::cover!(st == 3 && op == 1, "try_write against a writer");
}

static mut CAS_WON: bool = false;
static mut CAS_SEEN: bool = false;
static mut LOCK_WORD: *const AtomicUsize = std::ptr::null();
/// interference at the CAS: another thread takes the lock word first
fn cas_with_interference(this: &AtomicUsize, cur: usize, new: usize, _s: Ordering, _f: Ordering) -> Result<usize, usize> {
    unsafe {
        let is_word = std::ptr::eq(this, LOCK_WORD);
        if is_word {
            CAS_SEEN = true;
            if kani::any() {
                // somebody else won the race
                *(this.as_ptr()) = 1;
            }
        }
        let v = *(this.as_ptr());
        if v == cur {
            *(this.as_ptr()) = new;
            if is_word {
                CAS_WON = true;
            }
            Ok(v)
        } else {
            Err(v)
        }
    }
}

//@ obligation: C12.2a
//@ kind: K3
//@ complete: yes
//@ functions: RwLock::try_lock, RwLock::try_write, RwLock::write, RwLock::lock
//@ statement: try_write under interference at the compare-exchange (another thread may take the lock word between the load and the CAS), clean and
//@ statement: poisoned: a guard is handed out (Ok or inside Poisoned) only if this call's own CAS acquired the lock word
#[kani::proof]
#[kani::stub(crate::scheduler::get_scheduler, sup::get_scheduler_stub)]
#[kani::stub(<crate::park::Park as std::ops::Drop>::drop, sup::park_drop_noop)]
#[kani::stub(std::sync::atomic::Atomic::<usize>::compare_exchange, cas_with_interference)]
#[kani::stub(std::sync::PoisonError::new, sup::poison_error_new_stub)]
#[kani::stub(may_queue::mpsc::Queue::push, sup::mq_push_stub)]
#[kani::stub(may_queue::mpsc::Queue::pop, sup::mq_pop_stub)]
#[kani::stub(crossbeam::queue::SegQueue::push, sup::seg_push_stub)]
#[kani::stub(crossbeam::queue::SegQueue::pop, sup::seg_pop_stub)]
#[kani::stub(crate::sync::blocking::SyncBlocker::park, env::park_env)]
#[kani::stub(crate::sync::blocking::Blocker::unpark, sup::blocker_unpark_count)]
#[kani::unwind(3)]
fn c12_2a_guard_only_if_own_cas_won() {
    let l: &'static RwLock<u8> = Box::leak(Box::new(RwLock::new(0)));
    let poisoned: bool = kani::any();
    pz::set_poisoned(&l.poison, poisoned);
    unsafe {
        LOCK_WORD = &l.cnt;
        CAS_WON = false;
        CAS_SEEN = false;
        sup::ON_POISON_ERROR = Some(c12_2a_at_poison_error);
    }
    let g = guard_of(l.try_write());
    assert!(unsafe { CAS_SEEN }, "[C12.2-cas] try_write goes through the compare-exchange on a free lock");
    if g.is_some() {
        assert!(unsafe { CAS_WON }, "[C12.2-own-cas] a write guard was handed out although another thread won the lock word");
    } else {
        assert!(!unsafe { CAS_WON }, "[C12.2-would-block-only-if-lost] WouldBlock although this call acquired the lock word");
    }
    kani::cover!(!unsafe { CAS_WON }, "lost race");
    std::mem::forget(g);
}

fn c12_2a_at_poison_error() {
    assert!(unsafe { CAS_WON }, "[C12.2-own-cas] a Poisoned result (which every caller treats as 'acquired') although another thread won the lock word");
}

static mut UNLOCKS: usize = 0;
fn unlock_count_stub<T: ?Sized>(_l: &RwLock<T>) {
    unsafe { UNLOCKS += 1 };
}

//@ obligation: C12.3a
//@ property: C12 C09
//@ kind: K3
//@ complete: yes
//@ functions: RwLock::lock
//@ statement: the blocking path of the global lock (used by write() and by the first reader) when the wait is cancelled, against every interleaving
//@ statement: of one concurrent hand-off (unpark_one) with the abort sequence: the hand-off is passed on exactly once (by the waiter's unlock or by the
//@ statement: waker seeing the release flag), never when there was none, and lock() then reports Canceled; Ok is reported only after park returned Ok
#[kani::proof]
#[kani::stub(crate::scheduler::get_scheduler, sup::get_scheduler_stub)]
#[kani::stub(<crate::park::Park as std::ops::Drop>::drop, sup::park_drop_noop)]
#[kani::stub(crossbeam::queue::SegQueue::push, sup::seg_push_stub)]
#[kani::stub(crossbeam::queue::SegQueue::pop, sup::seg_pop_stub)]
#[kani::stub(crate::sync::blocking::SyncBlocker::current, env::current_env)]
#[kani::stub(crate::sync::blocking::SyncBlocker::park, env::park_env)]
#[kani::stub(crate::sync::blocking::SyncBlocker::is_unparked, env::is_unparked_env)]
#[kani::stub(crate::sync::blocking::SyncBlocker::set_release, env::set_release_env)]
#[kani::stub(crate::sync::blocking::SyncBlocker::take_release, env::take_release_env)]
#[kani::stub(crate::sync::rwlock::RwLock::unlock, unlock_count_stub)]
#[kani::stub(may_queue::mpsc::Queue::push, sup::mq_push_stub)]
#[kani::stub(may_queue::mpsc::Queue::pop, sup::mq_pop_stub)]
#[kani::stub(crate::sync::blocking::Blocker::unpark, sup::blocker_unpark_count)]
#[kani::unwind(5)]
fn c12_3a_cancelled_lock_forwards_exactly_once() {
    sup::gq_reset();
    unsafe { UNLOCKS = 0 };
    let _co = sup::enter_coroutine();
    env::env_reset(kani::any(), true, false, 1);
    let l: &'static RwLock<u8> = Box::leak(Box::new(RwLock::new(0)));
    l.cnt.store(1, Ordering::SeqCst);
    let r = l.lock();
    env::env_finish();
    let by_waiter = unsafe { UNLOCKS };
    let by_waker = if unsafe { env::WAKER_FORWARDED } { 1 } else { 0 };
    match r {
        Ok(()) => {
            assert!(unsafe { env::PARK_LAST } == 0 && env::token_delivered(), "[C12.3-ok-after-token] lock() reports success only after the hand-off");
            assert!(by_waiter + by_waker == 0, "[C12.3-kept] a waiter that takes the lock must not also pass it on");
        }
        Err(e) => {
            assert!(e == ParkError::Canceled && unsafe { env::PARK_LAST } == 2, "[C12.3-cancel-reported] an aborted wait reports Canceled");
            if unsafe { env::WAKER_EXISTS } {
                assert!(by_waiter + by_waker == 1, "[C12.3-forward-once] a hand-off that raced with the cancellation must be passed on exactly once");
            } else {
                assert!(by_waiter + by_waker == 0, "[C12.3-no-phantom] without a hand-off nothing may be released");
            }
        }
    }
    kani::cover!(by_waiter == 1, "forwarded by the waiter");
    kani::cover!(by_waker == 1, "forwarded by the waker");
    assert!(unsafe { sup::Q_PUSHES } == 1 && l.cnt.load(Ordering::SeqCst) == 2, "[C12.3-registered] the waiter registers once and counts itself once");
}

static mut MUTEX_UNLOCKS: usize = 0;
fn mutex_unlock_count_stub<T: ?Sized>(_m: &Mutex<T>) {
    unsafe { MUTEX_UNLOCKS += 1 };
}
fn lock_cancelled_stub<T: ?Sized>(_l: &RwLock<T>) -> Result<(), ParkError> {
    Err(ParkError::Canceled)
}

//@ obligation: C12.3b
//@ property: C12 C09
//@ kind: K3
//@ complete: yes
//@ functions: RwLock::read, RwLock::write
//@ statement: when the global lock reports Canceled: the first reader releases the reader mutex exactly once (without poisoning it) and leaves the
//@ statement: reader count at zero before the cancel panic; write() raises the cancel panic without producing a guard
#[kani::proof]
#[kani::stub(crate::scheduler::get_scheduler, sup::get_scheduler_stub)]
#[kani::stub(<crate::park::Park as std::ops::Drop>::drop, sup::park_drop_noop)]
#[kani::stub(crate::sync::rwlock::RwLock::lock, lock_cancelled_stub)]
#[kani::stub(crate::cancel::trigger_cancel_panic, sup::cancel_panic_stub)]
#[kani::stub(may_queue::mpsc::Queue::push, sup::mq_push_stub)]
#[kani::stub(may_queue::mpsc::Queue::pop, sup::mq_pop_stub)]
#[kani::stub(crossbeam::queue::SegQueue::push, sup::seg_push_stub)]
#[kani::stub(crossbeam::queue::SegQueue::pop, sup::seg_pop_stub)]
#[kani::stub(crate::sync::blocking::SyncBlocker::park, env::park_env)]
#[kani::stub(crate::sync::blocking::Blocker::unpark, sup::blocker_unpark_count)]
#[kani::stub(std::sync::PoisonError::new, sup::poison_error_new_stub)]
#[kani::stub(crate::sync::blocking::SyncBlocker::current, env::current_env)]
#[kani::stub(crate::sync::blocking::SyncBlocker::is_unparked, env::is_unparked_env)]
#[kani::stub(crate::sync::blocking::SyncBlocker::set_release, env::set_release_env)]
#[kani::stub(crate::sync::blocking::SyncBlocker::take_release, env::take_release_env)]
#[kani::unwind(3)]
fn c12_3b_cancelled_read_releases_reader_mutex() {
    let _co = sup::enter_coroutine();
    sup::gq_reset();
    env::env_reset(false, false, false, 0);
    let l: &'static RwLock<u8> = Box::leak(Box::new(RwLock::new(0)));
    unsafe {
        RW = l;
        sup::ON_POISON_ERROR = None;
        sup::ON_CANCEL_PANIC = Some(c12_3b_at_panic);
    }
    if kani::any() {
        let _ = l.read();
    } else {
        let _ = l.write();
    }
    assert!(false, "[C12.3b-panics] a cancelled read()/write() must raise the cancel panic instead of returning a guard");
}

fn c12_3b_at_panic() {
    let l = unsafe { &*RW };
    assert!(readers(l) == 0, "[C12.3b-rlock-free] the reader mutex is released and the reader count is zero before the cancel panic");
    assert!(!l.rlock.is_poisoned() && !l.is_poisoned(), "[C12.3b-no-poison] a cancellation does not poison");
}

//@ obligation: C12.canary
//@ kind: K2
//@ canary: yes
//@ functions: RwLock::try_write
//@ statement: canary — claims try_write succeeds while a reader holds the lock; must FAIL
#[kani::proof]
#[kani::stub(crate::scheduler::get_scheduler, sup::get_scheduler_stub)]
#[kani::stub(<crate::park::Park as std::ops::Drop>::drop, sup::park_drop_noop)]
#[kani::stub(may_queue::mpsc::Queue::push, sup::mq_push_stub)]
#[kani::stub(may_queue::mpsc::Queue::pop, sup::mq_pop_stub)]
#[kani::stub(crossbeam::queue::SegQueue::push, sup::seg_push_stub)]
#[kani::stub(crossbeam::queue::SegQueue::pop, sup::seg_pop_stub)]
#[kani::stub(crate::sync::blocking::SyncBlocker::park, env::park_env)]
#[kani::stub(crate::sync::blocking::Blocker::unpark, sup::blocker_unpark_count)]
#[kani::stub(std::sync::PoisonError::new, sup::poison_error_new_stub)]
#[kani::stub(crate::sync::blocking::SyncBlocker::current, env::current_env)]
#[kani::stub(crate::sync::blocking::SyncBlocker::is_unparked, env::is_unparked_env)]
#[kani::stub(crate::sync::blocking::SyncBlocker::set_release, env::set_release_env)]
#[kani::stub(crate::sync::blocking::SyncBlocker::take_release, env::take_release_env)]
#[kani::unwind(3)]
fn c12_canary() {
    sup::gq_reset();
    env::env_reset(false, false, false, 0);
    unsafe { sup::ON_POISON_ERROR = None };
    let l: &'static RwLock<u8> = Box::leak(Box::new(RwLock::new(0)));
    let r = guard_of_lock(l.read());
    assert!(l.try_write().is_ok(), "[C12.canary] canary (expected to fail)");
    std::mem::forget(r);
}
