//! C16 / C14 — `Drop for Cqueue`: a cqueue scope is not left while one of its select coroutines is running. Every
//! select coroutine that has not finished is cancelled, then the queue is drained with `poll` until `poll` reports
//! Finished (C16.1c: Finished is reported only with the live counter at zero). Child module of `cqueue.rs`.
//! `Cqueue::poll` is replaced by its contract (a script of Ok(event) results ending in Finished).
//@ file-needs: cz jn
//@ file-inject: src/cqueue.rs
//@ file-property: C16
use super::*;
use crate::coroutine_impl::vk_support as sup;
use crate::join::make_join_handle;

static mut POLLS: usize = 0;
static mut POLL_OKS: usize = 0;
static mut FINISHED_REPORTED: bool = false;
static mut CANCELLED_AT_FIRST_POLL: [bool; 2] = [false; 2];
static mut CANCELS: [*const Cancel; 2] = [std::ptr::null(); 2];
static mut POLL_TIMEOUT_WAS_NONE: bool = true;
use crate::cancel::Cancel;

/// contract of `Cqueue::poll` as the drain uses it: Ok(event, bottom half already run) while select coroutines still
/// send, Err(Finished) once all of them have ended and the queue is empty
fn poll_contract(c: &Cqueue, timeout: Option<Duration>) -> Result<Event, PollError> {
    unsafe {
        assert!(!FINISHED_REPORTED, "[C16.4-no-poll-after-finished] poll is called again after it reported Finished");
        if POLLS == 0 {
            let mut i = 0;
            while i < 2 {
                if !CANCELS[i].is_null() {
                    CANCELLED_AT_FIRST_POLL[i] = (*CANCELS[i]).is_canceled();
                }
                i += 1;
            }
            // harness artefact: the cancel phase is over and has been recorded; the join handles are leaked here, so that
            // the drop glue of JoinHandle (Arc<Inner> -> Park -> timer handle -> timer list ...) is not part of the
            // verification condition. The obligations on the cancel phase are evaluated through the leaked references;
            // nothing in `drop` reads the vector after the cancel phase.
            if let Ok(mut g) = c.selectors.lock() {
                g.set_len(0);
            }
        }
        POLLS += 1;
        if timeout.is_some() {
            POLL_TIMEOUT_WAS_NONE = false;
        }
        if POLLS <= POLL_OKS {
            Ok(Event { id: 0, token: 1, extra: 0, kind: EventKind::Normal, co: None })
        } else {
            FINISHED_REPORTED = true;
            Err(PollError::Finished)
        }
    }
}

fn mk_selector(done: bool) -> (JoinHandle<()>, &'static Cancel) {
    let (co, handle, join) = sup::mk_suspended_coroutine();
    std::mem::forget(co);
    if done {
        crate::join::vk_jn::real_trigger(&join);
    }
    // an extra reference to every shared part: the handles dropped with the Cqueue only decrement
    let keep: &'static Coroutine = Box::leak(Box::new(handle.clone()));
    std::mem::forget(join.clone());
    let packet = std::sync::Arc::new(AtomicOption::none());
    let panic = std::sync::Arc::new(AtomicOption::none());
    std::mem::forget(packet.clone());
    std::mem::forget(panic.clone());
    (make_join_handle(handle, join, packet, panic), sup::cancel_of(keep))
}

fn drop_cancels_then_drains_until_finished<const RUNNING: bool, const EVENTS: usize>() {
    sup::gq_reset();
    sup::trace_reset();
    sup::scheduler_reset();
    let running: bool = RUNNING;
    let (h0, c0) = mk_selector(true);
    let (h1, c1) = mk_selector(!running);
    unsafe {
        POLLS = 0;
        POLL_OKS = EVENTS;
        FINISHED_REPORTED = false;
        POLL_TIMEOUT_WAS_NONE = true;
        CANCELS = [c0, c1];
        CANCELLED_AT_FIRST_POLL = [false; 2];
    }
    let mut v = Vec::with_capacity(3);
    v.push(Some(h0));
    v.push(None);
    v.push(Some(h1));
    let cq = Cqueue {
        ev_queue: Queue::new(),
        to_wake: AtomicOption::none(),
        cnt: AtomicUsize::new(if running { 1 } else { 0 }),
        selectors: Mutex::new(v),
        total: AtomicUsize::new(3),
        is_panicking: AtomicBool::new(false),
    };
    drop(cq);
    assert!(unsafe { FINISHED_REPORTED }, "[C16.4-drain-until-finished] the Cqueue is dropped (the scope is left) before poll reported that every select coroutine has finished");
    assert!(unsafe { POLLS } == unsafe { POLL_OKS } + 1, "[C16.4-drain-until-finished] the Cqueue is dropped (the scope is left) before poll reported that every select coroutine has finished");
    assert!(unsafe { POLL_TIMEOUT_WAS_NONE }, "[C16.4-drain-without-timeout] the drain must wait without a time-out");
    // (cancelling a coroutine that has already finished is harmless and therefore not forbidden)
    if running {
        assert!(c1.is_canceled(), "[C16.4-running-cancelled] every select coroutine that is still running is cancelled");
        assert!(unsafe { CANCELLED_AT_FIRST_POLL[1] }, "[C16.4-cancel-before-drain] the running select coroutines are cancelled before the drain starts waiting for them");
    }
    let _ = c0;
}

//@ obligation: C16.4.0
//@ property: C16 C14
//@ kind: K3
//@ complete: yes
//@ functions: <Cqueue as Drop>::drop, Coroutine::cancel
//@ statement: variant [selectors: one finished, one taken by check_panic, one still running; 2 event(s) delivered during the drain]: dropping a Cqueue (what cqueue::scope / select! do on every exit, also by unwinding): every select coroutine that has not finished is cancelled
//@ statement: BEFORE the drain starts; poll is then called with no time-out again and again until it reports Finished (all select
//@ statement: coroutines have ended, C16.1c), and not again afterwards — the scope is not left earlier
#[kani::proof]
#[kani::stub(crate::scheduler::get_scheduler, sup::get_scheduler_stub)]
#[kani::stub(<crate::park::Park as std::ops::Drop>::drop, sup::park_drop_noop)]
#[kani::stub(crate::cqueue::Cqueue::poll, poll_contract)]
#[kani::stub(may_queue::mpsc::Queue::pop, sup::mq_pop_stub)]
#[kani::stub(crate::cancel::CancelImpl::cancel, crate::cancel::vk_cz::cancel_contract_sets_bit)]
#[kani::unwind(5)]
fn c16_4_0() {
    drop_cancels_then_drains_until_finished::<true, 2>();
}

//@ obligation: C16.4.1
//@ property: C16 C14
//@ kind: K3
//@ complete: yes
//@ functions: <Cqueue as Drop>::drop, Coroutine::cancel
//@ statement: variant [selectors: one finished, one taken by check_panic, one still running; 0 event(s) delivered during the drain]: dropping a Cqueue (what cqueue::scope / select! do on every exit, also by unwinding): every select coroutine that has not finished is cancelled
//@ statement: BEFORE the drain starts; poll is then called with no time-out again and again until it reports Finished (all select
//@ statement: coroutines have ended, C16.1c), and not again afterwards — the scope is not left earlier
#[kani::proof]
#[kani::stub(crate::scheduler::get_scheduler, sup::get_scheduler_stub)]
#[kani::stub(<crate::park::Park as std::ops::Drop>::drop, sup::park_drop_noop)]
#[kani::stub(crate::cqueue::Cqueue::poll, poll_contract)]
#[kani::stub(may_queue::mpsc::Queue::pop, sup::mq_pop_stub)]
#[kani::stub(crate::cancel::CancelImpl::cancel, crate::cancel::vk_cz::cancel_contract_sets_bit)]
#[kani::unwind(5)]
fn c16_4_1() {
    drop_cancels_then_drains_until_finished::<true, 0>();
}

//@ obligation: C16.4.2
//@ property: C16 C14
//@ kind: K3
//@ complete: yes
//@ functions: <Cqueue as Drop>::drop, Coroutine::cancel
//@ statement: variant [selectors: one finished, one taken by check_panic, one finished; 0 event(s) delivered during the drain]: dropping a Cqueue (what cqueue::scope / select! do on every exit, also by unwinding): every select coroutine that has not finished is cancelled
//@ statement: BEFORE the drain starts; poll is then called with no time-out again and again until it reports Finished (all select
//@ statement: coroutines have ended, C16.1c), and not again afterwards — the scope is not left earlier
#[kani::proof]
#[kani::stub(crate::scheduler::get_scheduler, sup::get_scheduler_stub)]
#[kani::stub(<crate::park::Park as std::ops::Drop>::drop, sup::park_drop_noop)]
#[kani::stub(crate::cqueue::Cqueue::poll, poll_contract)]
#[kani::stub(may_queue::mpsc::Queue::pop, sup::mq_pop_stub)]
#[kani::stub(crate::cancel::CancelImpl::cancel, crate::cancel::vk_cz::cancel_contract_sets_bit)]
#[kani::unwind(5)]
fn c16_4_2() {
    drop_cancels_then_drains_until_finished::<false, 0>();
}

//@ obligation: C16.4.3
//@ property: C16 C14
//@ kind: K3
//@ complete: yes
//@ functions: <Cqueue as Drop>::drop, Coroutine::cancel
//@ statement: variant [selectors: one finished, one taken by check_panic, one finished; 1 event(s) delivered during the drain]: dropping a Cqueue (what cqueue::scope / select! do on every exit, also by unwinding): every select coroutine that has not finished is cancelled
//@ statement: BEFORE the drain starts; poll is then called with no time-out again and again until it reports Finished (all select
//@ statement: coroutines have ended, C16.1c), and not again afterwards — the scope is not left earlier
#[kani::proof]
#[kani::stub(crate::scheduler::get_scheduler, sup::get_scheduler_stub)]
#[kani::stub(<crate::park::Park as std::ops::Drop>::drop, sup::park_drop_noop)]
#[kani::stub(crate::cqueue::Cqueue::poll, poll_contract)]
#[kani::stub(may_queue::mpsc::Queue::pop, sup::mq_pop_stub)]
#[kani::stub(crate::cancel::CancelImpl::cancel, crate::cancel::vk_cz::cancel_contract_sets_bit)]
#[kani::unwind(5)]
fn c16_4_3() {
    drop_cancels_then_drains_until_finished::<false, 1>();
}

