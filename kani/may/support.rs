//! Shared harness support for the `may` crate. Injected as a child module of `coroutine_impl.rs`
//! (white box: `Coroutine::new`, `Inner`, `get_co_local` are private there).
//!
//! Provides: a way to put the harness *in coroutine context* with a real `Coroutine` handle and a real
//! `CoroutineLocal` (through the generator shim's ghost "current context"), a ghost event trace, and the
//! stubs shared by the K3 harnesses (abstract scheduler, abstract `Blocker::park`/`unpark`).
//@ file-inject: src/coroutine_impl.rs
use super::*;
use crate::park::ParkError;
use crate::sync::Blocker;
use std::sync::Arc;
use std::time::Duration;

// ------------------------------------------------------------------------------------------------
// coroutine context
// ------------------------------------------------------------------------------------------------
static mut PARA_SLOT: Option<EventResult> = None;

/// Put the harness into coroutine context and return the handle of "the current coroutine".
pub(crate) fn enter_coroutine() -> &'static Coroutine {
    let co = Coroutine::new(None, 0x1000);
    let panic = Arc::new(AtomicOption::none());
    let join = Arc::new(Join::new(panic));
    let local = CoroutineLocal::new(co.clone(), join);
    unsafe {
        // plain overwrite: running the drop glue of an (absent) io::Error costs CBMC ~500k steps
        std::ptr::write(&raw mut PARA_SLOT, None);
        generator::ghost::CUR_LOCAL = Box::into_raw(local) as *mut u8;
        generator::ghost::CUR_PARA = &raw mut PARA_SLOT as *mut u8;
    }
    // leaked: dropping the handle at the end of a harness drags the whole drop glue of Park into the
    // verification condition (~500k symex steps) for nothing
    Box::leak(Box::new(co))
}

/// Back to thread context (the CoroutineLocal is leaked on purpose: `&'static Cancel` references exist).
pub(crate) fn leave_coroutine() {
    unsafe {
        generator::ghost::CUR_LOCAL = std::ptr::null_mut();
        generator::ghost::CUR_PARA = std::ptr::null_mut();
    }
}

pub(crate) fn set_current_para(e: Option<EventResult>) {
    unsafe { std::ptr::write(&raw mut PARA_SLOT, e) };
}

pub(crate) fn current_para_is_some() -> bool {
    unsafe { PARA_SLOT.is_some() }
}

pub(crate) fn cancel_of(co: &Coroutine) -> &Cancel {
    &co.inner.cancel
}

pub(crate) fn park_of(co: &Coroutine) -> &Park {
    &co.inner.park
}

/// A suspended coroutine object as `spawn_impl` builds it (shim generator + fresh CoroutineLocal), without code.
pub(crate) fn mk_suspended_coroutine() -> (CoroutineImpl, Coroutine, Arc<Join>) {
    let mut co: CoroutineImpl = generator::shim_new_empty(0x1000);
    let handle = Coroutine::new(None, 0x1000);
    let panic = Arc::new(AtomicOption::none());
    let join = Arc::new(Join::new(panic));
    let local = CoroutineLocal::new(handle.clone(), join.clone());
    co.set_local_data(Box::into_raw(local) as *mut u8);
    (co, handle, join)
}

// ------------------------------------------------------------------------------------------------
// ghost event trace
// ------------------------------------------------------------------------------------------------
// Loop-free: per-kind counters and first/last positions (a loop over a trace buffer would force a large
// unwinding bound on every loop of the code under test).
pub(crate) const KINDS: usize = 16;
pub(crate) const NONE: usize = usize::MAX;
pub(crate) static mut EV_COUNT: [usize; KINDS] = [0; KINDS];
pub(crate) static mut EV_FIRST: [usize; KINDS] = [NONE; KINDS];
pub(crate) static mut EV_LAST: [usize; KINDS] = [NONE; KINDS];
pub(crate) static mut EV_CLOCK: usize = 0;

pub(crate) fn ev(kind: u8) {
    unsafe {
        let k = kind as usize;
        EV_COUNT[k] += 1;
        if EV_FIRST[k] == NONE {
            EV_FIRST[k] = EV_CLOCK;
        }
        EV_LAST[k] = EV_CLOCK;
        EV_CLOCK += 1;
    }
}

pub(crate) fn trace_reset() {
    unsafe {
        EV_COUNT = [0; KINDS];
        EV_FIRST = [NONE; KINDS];
        EV_LAST = [NONE; KINDS];
        EV_CLOCK = 0;
    }
}

pub(crate) fn count(kind: u8) -> usize {
    unsafe { EV_COUNT[kind as usize] }
}

/// position of the first event of this kind, NONE if there is none
pub(crate) fn first(kind: u8) -> usize {
    unsafe { EV_FIRST[kind as usize] }
}

/// position of the last event of this kind, NONE if there is none
pub(crate) fn last(kind: u8) -> usize {
    unsafe { EV_LAST[kind as usize] }
}

pub(crate) fn happened(kind: u8) -> bool {
    count(kind) > 0
}

/// every `a` precedes every `b` (vacuously true if either is absent)
pub(crate) fn all_before(a: u8, b: u8) -> bool {
    !happened(a) || !happened(b) || last(a) < first(b)
}

// event kinds shared by the stubs below (harness files define their own from 100 upwards)
pub(crate) const E_PARK: u8 = 1;
pub(crate) const E_UNPARK: u8 = 2;
pub(crate) const E_SCHEDULE: u8 = 3;
pub(crate) const E_SCHEDULE_GLOBAL: u8 = 4;
pub(crate) const E_RUN: u8 = 5;
pub(crate) const E_ADD_TIMER: u8 = 6;
pub(crate) const E_DEL_TIMER: u8 = 7;
pub(crate) const E_CANCEL_PANIC: u8 = 8;
pub(crate) const E_POOL_PUT: u8 = 9;
pub(crate) const E_YIELD: u8 = 10;

// ------------------------------------------------------------------------------------------------
// abstract Blocker::park / unpark  (contract of a *fresh* blocker, proved for the real code in C02)
// ------------------------------------------------------------------------------------------------
/// what the abstract park may return besides Ok
pub(crate) static mut PARK_MAY_CANCEL: bool = false;
/// the result of the most recent abstract park: 0 Ok, 1 Timeout, 2 Canceled
pub(crate) static mut PARK_LAST: u8 = 0;
/// number of abstract parks that are still allowed (bounds retry loops); the path is cut beyond it
pub(crate) static mut PARK_BUDGET: usize = 1;

/// Contract: returns Ok (an unpark was delivered), Err(Timeout) only if a time-out was given,
/// Err(Canceled) only for a cancellable coroutine. No state of the blocker is modelled here.
pub(crate) fn blocker_park_stub(_b: &Blocker, timeout: Option<Duration>) -> Result<(), ParkError> {
    unsafe {
        if PARK_BUDGET == 0 {
            // the wait goes on; nothing more to check on this path
            kani::assume(false);
        }
        PARK_BUDGET -= 1;
    }
    ev(E_PARK);
    let r: u8 = kani::any();
    kani::assume(r <= 2);
    kani::assume(r != 1 || timeout.is_some());
    kani::assume(r != 2 || unsafe { PARK_MAY_CANCEL });
    unsafe { PARK_LAST = r };
    match r {
        0 => Ok(()),
        1 => Err(ParkError::Timeout),
        _ => Err(ParkError::Canceled),
    }
}

pub(crate) static mut LAST_UNPARKED: *const Blocker = std::ptr::null();

pub(crate) fn blocker_unpark_stub(b: &Blocker) {
    ev(E_UNPARK);
    unsafe { LAST_UNPARKED = b as *const Blocker };
}

// ------------------------------------------------------------------------------------------------
// abstract scheduler (never initialised: every method a harness can reach is stubbed)
// ------------------------------------------------------------------------------------------------
use crate::scheduler::Scheduler;
use crate::timeout_list::TimeoutHandle;

pub(crate) static mut SCHEDULED: Option<CoroutineImpl> = None;
pub(crate) static mut SCHEDULED_COUNT: usize = 0;
pub(crate) static mut RAN: Option<CoroutineImpl> = None;
pub(crate) static mut TIMER_DUR: Option<Duration> = None;

pub(crate) fn get_scheduler_stub() -> &'static Scheduler {
    // never dereferenced: all methods reachable from the harnesses are stubbed
    unsafe { std::mem::transmute::<usize, &'static Scheduler>(128) }
}

pub(crate) fn schedule_stub(_s: &Scheduler, co: CoroutineImpl) {
    ev(E_SCHEDULE);
    unsafe {
        SCHEDULED_COUNT += 1;
        if let Some(old) = SCHEDULED.replace(co) {
            std::mem::forget(old);
        }
    }
}

pub(crate) fn schedule_global_stub(_s: &Scheduler, co: CoroutineImpl) {
    ev(E_SCHEDULE_GLOBAL);
    unsafe {
        SCHEDULED_COUNT += 1;
        if let Some(old) = SCHEDULED.replace(co) {
            std::mem::forget(old);
        }
    }
}

/// abstract `run_coroutine`: the coroutine is resumed by somebody; here it is only recorded
pub(crate) fn run_coroutine_stub(co: CoroutineImpl) {
    ev(E_RUN);
    unsafe {
        if let Some(old) = RAN.replace(co) {
            std::mem::forget(old);
        }
    }
}

pub(crate) fn scheduler_reset() {
    unsafe {
        if let Some(c) = SCHEDULED.take() {
            std::mem::forget(c);
        }
        if let Some(c) = RAN.take() {
            std::mem::forget(c);
        }
        SCHEDULED_COUNT = 0;
        TIMER_DUR = None;
    }
}

/// the coroutine that was resumed — run directly or put on a run queue; which of the two is not the obligations' business
pub(crate) fn resumed_ref() -> Option<&'static CoroutineImpl> {
    unsafe {
        match (&*(&raw const RAN)).as_ref() {
            Some(c) => Some(c),
            None => (&*(&raw const SCHEDULED)).as_ref(),
        }
    }
}
pub(crate) fn resumed_id() -> Option<usize> {
    resumed_ref().map(|c| c.shim_id())
}

pub(crate) fn cancel_panic_stub() -> ! {
    ev(E_CANCEL_PANIC);
    unsafe {
        if let Some(f) = ON_CANCEL_PANIC {
            f();
        }
    }
    kani::assume(false);
    loop {}
}

/// post-condition to evaluate at the moment the cancel panic is raised (the call never returns)
pub(crate) static mut ON_CANCEL_PANIC: Option<fn()> = None;

// ------------------------------------------------------------------------------------------------
// abstract FIFO standing in for the waiter queues (may_queue::mpsc::Queue — contract C03 — and
// crossbeam's SegQueue — trusted). Type-erased so that the generic stubs can share it.
// ------------------------------------------------------------------------------------------------
pub(crate) const GQ_CAP: usize = 4;
pub(crate) static mut GQ: [*mut u8; GQ_CAP] = [std::ptr::null_mut(); GQ_CAP];
pub(crate) static mut GQ_HEAD: usize = 0;
pub(crate) static mut GQ_TAIL: usize = 0;
pub(crate) static mut Q_PUSHES: usize = 0;
pub(crate) static mut Q_POPS: usize = 0;
/// called at the registration point (after the push) — lets a harness sample shared state there
pub(crate) static mut ON_Q_PUSH: Option<fn()> = None;
/// called before every pop — lets a harness run an environment step there
pub(crate) static mut ON_Q_POP: Option<fn()> = None;
/// called right after a pop that found the queue empty (the window between a waiter's look at the queue and its next step)
pub(crate) static mut ON_Q_POP_NONE: Option<fn()> = None;

pub(crate) fn gq_reset() {
    unsafe {
        GQ_HEAD = 0;
        GQ_TAIL = 0;
        Q_PUSHES = 0;
        Q_POPS = 0;
        ON_Q_PUSH = None;
        ON_Q_POP = None;
        ON_Q_POP_NONE = None;
    }
}

pub(crate) fn gq_len() -> usize {
    unsafe { GQ_TAIL - GQ_HEAD }
}

fn gq_push_erased<T>(v: T) {
    unsafe {
        Q_PUSHES += 1;
        assert!(GQ_TAIL < GQ_CAP, "ghost queue capacity");
        GQ[GQ_TAIL] = Box::into_raw(Box::new(v)) as *mut u8;
        GQ_TAIL += 1;
        if let Some(f) = ON_Q_PUSH {
            f();
        }
    }
}

fn gq_pop_erased<T>() -> Option<T> {
    unsafe {
        if let Some(f) = ON_Q_POP {
            f();
        }
        if GQ_HEAD == GQ_TAIL {
            if let Some(f) = ON_Q_POP_NONE {
                f();
            }
            return None;
        }
        Q_POPS += 1;
        let p = GQ[GQ_HEAD];
        GQ_HEAD += 1;
        Some(*Box::from_raw(p as *mut T))
    }
}

pub(crate) fn seg_push_stub<T>(_q: &crossbeam::queue::SegQueue<T>, v: T) {
    gq_push_erased(v)
}

pub(crate) fn seg_pop_stub<T>(_q: &crossbeam::queue::SegQueue<T>) -> Option<T> {
    gq_pop_erased()
}

pub(crate) fn seg_is_empty_stub<T>(_q: &crossbeam::queue::SegQueue<T>) -> bool {
    gq_len() == 0
}

pub(crate) fn mq_push_stub<T>(_q: &may_queue::mpsc::Queue<T>, v: T) {
    gq_push_erased(v)
}

pub(crate) fn mq_pop_stub<T>(_q: &may_queue::mpsc::Queue<T>) -> Option<T> {
    gq_pop_erased()
}

pub(crate) static mut BLOCKER_UNPARKS: usize = 0;
pub(crate) fn blocker_unpark_count(_b: &Blocker) {
    unsafe { BLOCKER_UNPARKS += 1 };
}

/// `Park::drop` waits for the kernel side and drops the timer handle; irrelevant to the obligations that
/// only create and drop blockers, but its body (yield_now -> the whole runtime) is what CBMC would have to
/// encode whenever a reference count is not a compile-time constant. Stubbed where noted.
pub(crate) fn park_drop_noop(_p: &mut crate::park::Park) {}

// ------------------------------------------------------------------------------------------------
// std::sync::PoisonError under Kani: Kani's std is built with panic=abort, where PoisonError<T> is
// uninhabited and `PoisonError::new` panics. A "Poisoned" result therefore cannot be *returned* inside a
// harness; the stub below turns the construction of the error into an observable event (with a hook that
// evaluates the obligation at that instant) and cuts the path.
// ------------------------------------------------------------------------------------------------
pub(crate) static mut POISON_ERRORS: usize = 0;
pub(crate) static mut ON_POISON_ERROR: Option<fn()> = None;
pub(crate) fn poison_error_new_stub<T>(data: T) -> std::sync::PoisonError<T> {
    unsafe {
        POISON_ERRORS += 1;
        if let Some(f) = ON_POISON_ERROR {
            f();
        }
    }
    std::mem::forget(data);
    kani::assume(false);
    loop {}
}

/// Dropping the (empty) waiter queues of a Mutex / Condvar runs the real queue destructors; the mpsc one
/// walks packed pointers, which costs CBMC millions of variables for nothing. Stubbed where noted.
pub(crate) fn mq_drop_noop<T>(_q: &mut may_queue::mpsc::Queue<T>) {}
pub(crate) fn seg_drop_noop<T>(_q: &mut crossbeam::queue::SegQueue<T>) {}

/// does this EventSubscriber point at `r`? (the harness then calls `r.subscribe` with static dispatch: a
/// `dyn EventSource` call makes CBMC consider every function with a compatible signature as a target)
pub(crate) fn es_points_to<T>(es: &EventSubscriber, r: *const T) -> bool {
    es.resource as *const () == r as *const ()
}

/// `io::Error::other(msg)` builds a heap `Custom` error holding a `Box<dyn Error>`; dropping it is a virtual call
/// with thousands of candidate targets for CBMC. The code under test only looks at `kind()`. These two stubs
/// stand at the points where a result is handed to a coroutine (`set_co_para` in cancel()/timer, `co_set_para` in
/// `yield_with`): they keep the kind, hand over a payload-free error of that kind and leak the original.
pub(crate) fn set_co_para_kind_only(co: &mut CoroutineImpl, v: EventResult) {
    let k = v.kind();
    std::mem::forget(v);
    co.set_para(std::io::Error::from(k));
}

pub(crate) fn co_set_para_kind_only<A: std::any::Any>(para: A) {
    assert!(std::mem::size_of::<A>() == std::mem::size_of::<EventResult>());
    let e: EventResult = unsafe { std::mem::transmute_copy(&para) };
    std::mem::forget(para);
    let k = e.kind();
    std::mem::forget(e);
    set_current_para(Some(std::io::Error::from(k)));
}

/// Last resort against the same problem: never run the destructor of an `io::Error` (a `Custom` payload is leaked).
pub(crate) fn io_error_drop_noop(_e: &mut std::io::Error) {}

/// observation of `AtomicOption::vk_take_observed` (kani/may/ao.rs): the watched cell, the flag sampled at its take
pub(crate) static mut AO_WATCH: *const u8 = std::ptr::null();
pub(crate) static mut AO_WATCH_FLAG: *const std::sync::atomic::AtomicUsize = std::ptr::null();
pub(crate) static mut AO_FLAG_AT_TAKE: usize = usize::MAX;
pub(crate) static mut AO_TAKES: usize = 0;
