//! shared pieces of the per-operation I/O harnesses (c17_op_*.rs): the worker side (`subscribe`) of every blocking
//! socket operation follows one template — arm the timer, publish the coroutine in `EventData.co`, re-read the
//! readiness flag, register with the Cancel object, re-check the cancel bit. The obligations are stated once here,
//! generically over the operation type, and instantiated for each real `impl EventSource for <Op>` (static dispatch).
//! Child module of `io/sys/unix/mod.rs` (module `io::sys`).
//@ file-needs: cz
//@ file-inject: src/io/sys/unix/mod.rs
//@ file-modpath: io::sys
use super::*;
use crate::coroutine_impl::vk_support as sup;
use crate::coroutine_impl::EventSource;
use std::sync::atomic::Ordering;
use std::sync::Arc;
use std::time::Duration;

pub(crate) static mut IO: *const EventData = std::ptr::null();
pub(crate) static mut ADD_IO_TIMERS: usize = 0;
pub(crate) static mut CO_PUBLISHED_AT_TIMER: bool = false;
pub(crate) static mut CHECK_FLAG_LOADS: bool = false;
pub(crate) static mut FLAG_LOADS: usize = 0;

pub(crate) fn mk_io() -> &'static IoData {
    let ev = Arc::new(EventData::new(5));
    unsafe { IO = Arc::as_ptr(&ev) };
    Box::leak(Box::new(IoData(ev)))
}

/// a second handle on the same EventData (what `add_socket` hands to a connect operation); never dropped in the harnesses
pub(crate) fn io_clone(io: &IoData) -> IoData {
    IoData(io.0.clone())
}

fn published(io: &EventData) -> bool {
    match io.co.take() {
        Some(c) => {
            io.co.store(c);
            true
        }
        None => false,
    }
}

pub(crate) fn add_io_timer_stub(_s: &Selector, io: &IoData, _d: Duration) {
    unsafe {
        ADD_IO_TIMERS += 1;
        CO_PUBLISHED_AT_TIMER = published(io);
    }
}

pub(crate) fn get_selector_stub(_s: &crate::scheduler::Scheduler) -> &'static Selector {
    unsafe { std::mem::transmute::<usize, &'static Selector>(128) }
}

/// stub of `AtomicUsize::load`: a load of THE readiness flag is an observation point
pub(crate) fn flag_load_checks_publication(this: &std::sync::atomic::AtomicUsize, _o: Ordering) -> usize {
    unsafe {
        if CHECK_FLAG_LOADS && !IO.is_null() && std::ptr::eq(this, &(*IO).io_flag) {
            FLAG_LOADS += 1;
            assert!(published(&*IO), "[C17.2-publish-before-recheck] subscribe reads the readiness flag before the coroutine is published: an edge landing between that read and the publication wakes nobody");
        }
        *(this.as_ptr())
    }
}

/// `<Op as EventSource>::subscribe` from a concrete pre-state. `mk(io, timed)` builds the real operation struct.
/// TIMER: 0 = the operation has no time-out, 1 = a time-out is set, 2 = the operation never arms a timer (accept)
pub(crate) fn subscribe_from<S: EventSource, const READY: bool, const CANCELLED: bool, const TIMER: u8>(mk: fn(&'static IoData, bool) -> S) {
    sup::trace_reset();
    sup::scheduler_reset();
    let h = sup::enter_coroutine();
    let io = mk_io();
    unsafe { ADD_IO_TIMERS = 0 };
    let mut r = mk(io, TIMER == 1);
    let mut co: crate::coroutine_impl::CoroutineImpl = generator::shim_new_empty(0x1000);
    co.set_local_data(unsafe { generator::ghost::CUR_LOCAL });
    let id = co.shim_id();
    if READY {
        // the selector saw the fd ready after the caller's last check and found no coroutine to wake
        io.io_flag.fetch_or(1, Ordering::Release);
    }
    if CANCELLED {
        sup::cancel_of(h).vk_set_cancel_bit();
    }
    EventSource::subscribe(&mut r, co);
    std::mem::forget(r);
    let resumed = sup::count(sup::E_RUN) + sup::count(sup::E_SCHEDULE);
    assert!(unsafe { ADD_IO_TIMERS } == if TIMER == 1 { 1 } else { 0 }, "[C18.2-timer-armed-iff] an I/O timer is armed iff the operation has a time-out");
    if TIMER == 1 {
        assert!(!unsafe { CO_PUBLISHED_AT_TIMER }, "[C18.2-arm-before-publish] the timer is armed before the coroutine is published (whoever takes the coroutine must find the timer to disarm)");
    }
    if READY {
        assert!(resumed == 1 && sup::count(sup::E_RUN) == 1, "[C17.2-recheck-after-publish] a readiness edge that arrived before the coroutine was published: subscribe must resume it itself, otherwise it is never woken");
        assert!(unsafe { sup::RAN.as_ref().map(|c| c.shim_id()) } == Some(id) && io.co.take().is_none(), "[C17.2-recheck-after-publish] a readiness edge that arrived before the coroutine was published: subscribe must resume it itself, otherwise it is never woken");
    } else if CANCELLED {
        assert!(resumed == 1 && sup::count(sup::E_SCHEDULE) == 1, "[C18.4-recheck-cancel] a cancel that arrived before the registration makes subscribe reschedule the coroutine, once");
        assert!(io.co.take().is_none(), "[C18.4-taken] the cancelled coroutine was taken out of the I/O slot");
    } else {
        assert!(resumed == 0, "[C17.2-stays-parked] without readiness and cancel the coroutine stays parked in the I/O slot");
        let parked = io.co.take();
        assert!(parked.as_ref().map(|c| c.shim_id()) == Some(id), "[C17.2-published] the parked coroutine sits in the I/O slot for the selector");
        std::mem::forget(parked);
    }
    sup::leave_coroutine();
}

/// ordering inside subscribe: every read of the readiness flag happens with the coroutine already published, and
/// there is at least one such read
pub(crate) fn subscribe_order<S: EventSource>(mk: fn(&'static IoData, bool) -> S) {
    sup::trace_reset();
    sup::scheduler_reset();
    let _h = sup::enter_coroutine();
    let io = mk_io();
    let mut r = mk(io, false);
    let mut co: crate::coroutine_impl::CoroutineImpl = generator::shim_new_empty(0x1000);
    co.set_local_data(unsafe { generator::ghost::CUR_LOCAL });
    unsafe {
        FLAG_LOADS = 0;
        CHECK_FLAG_LOADS = true;
    }
    EventSource::subscribe(&mut r, co);
    std::mem::forget(r);
    unsafe { CHECK_FLAG_LOADS = false };
    assert!(unsafe { FLAG_LOADS } >= 1, "[C17.2-recheck-exists] subscribe must re-read the readiness flag after publishing the coroutine");
    sup::leave_coroutine();
}
