//! shared pieces of the per-operation I/O harnesses (c17_op_*.rs): the worker side (`subscribe`) of every blocking
//! socket operation follows one template — arm the timer, publish the coroutine in `EventData.co`, re-read the
//! readiness flag, register with the Cancel object, re-check the cancel bit. The obligations are stated once here,
//! generically over the operation type, and instantiated for each real `impl EventSource for <Op>` (static dispatch).
//! Child module of `io/sys/unix/mod.rs` (module `io::sys`).
//@ file-needs: cz
//@ file-inject: src/io/sys/unix/mod.rs
//@ file-modpath: io::sys
//@ file-mirror: src/io/sys/unix/mod.rs :: if likely(is_coroutine) { match get_co_para() { None => Ok(()), Some(err) => Err(err), } } else {
use super::*;
use crate::coroutine_impl::vk_support as sup;
use crate::coroutine_impl::EventSource;
use std::sync::atomic::Ordering;
use std::sync::Arc;
use std::time::Duration;

pub(crate) static mut IO: *const EventData = std::ptr::null();
pub(crate) static mut ADD_IO_TIMERS: usize = 0;
pub(crate) static mut CO_PUBLISHED_AT_TIMER: bool = false;
pub(crate) static mut CHECK_FLAG_LOADS: bool = false;
pub(crate) static mut FLAG_LOADS: usize = 0;

pub(crate) fn mk_io() -> &'static IoData {
    let ev = Arc::new(EventData::new(5));
    unsafe { IO = Arc::as_ptr(&ev) };
    Box::leak(Box::new(IoData(ev)))
}

/// a second handle on the same EventData (what `add_socket` hands to a connect operation); never dropped in the harnesses
pub(crate) fn io_clone(io: &IoData) -> IoData {
    IoData(io.0.clone())
}

fn published(io: &EventData) -> bool {
    match io.co.take() {
        Some(c) => {
            io.co.store(c);
            true
        }
        None => false,
    }
}

pub(crate) fn add_io_timer_stub(_s: &Selector, io: &IoData, _d: Duration) {
    unsafe {
        ADD_IO_TIMERS += 1;
        CO_PUBLISHED_AT_TIMER = published(io);
    }
}

pub(crate) fn get_selector_stub(_s: &crate::scheduler::Scheduler) -> &'static Selector {
    unsafe { std::mem::transmute::<usize, &'static Selector>(128) }
}

/// stub of `AtomicUsize::load`: a load of THE readiness flag is an observation point
pub(crate) fn flag_load_checks_publication(this: &std::sync::atomic::AtomicUsize, _o: Ordering) -> usize {
    unsafe {
        if CHECK_FLAG_LOADS && !IO.is_null() && std::ptr::eq(this, &(*IO).io_flag) {
            FLAG_LOADS += 1;
            assert!(published(&*IO), "[C17.2-publish-before-recheck] subscribe reads the readiness flag before the coroutine is published: an edge landing between that read and the publication wakes nobody");
        }
        *(this.as_ptr())
    }
}

/// `<Op as EventSource>::subscribe` from a concrete pre-state. `mk(io, timed)` builds the real operation struct.
/// TIMER: 0 = the operation has no time-out, 1 = a time-out is set, 2 = the operation never arms a timer (accept)
pub(crate) fn subscribe_from<S: EventSource, const READY: bool, const CANCELLED: bool, const TIMER: u8, MK: Fn(&'static IoData, bool) -> S>(mk: MK) {
    sup::trace_reset();
    sup::scheduler_reset();
    let h = sup::enter_coroutine();
    let io = mk_io();
    unsafe { ADD_IO_TIMERS = 0 };
    let mut r = mk(io, TIMER == 1);
    let mut co: crate::coroutine_impl::CoroutineImpl = generator::shim_new_empty(0x1000);
    co.set_local_data(unsafe { generator::ghost::CUR_LOCAL });
    let id = co.shim_id();
    if READY {
        // the selector saw the fd ready after the caller's last check and found no coroutine to wake
        io.io_flag.fetch_or(1, Ordering::Release);
    }
    if CANCELLED {
        sup::cancel_of(h).vk_set_cancel_bit();
    }
    EventSource::subscribe(&mut r, co);
    std::mem::forget(r);
    let resumed = sup::count(sup::E_RUN) + sup::count(sup::E_SCHEDULE);
    assert!(unsafe { ADD_IO_TIMERS } == if TIMER == 1 { 1 } else { 0 }, "[C18.2-timer-armed-iff] an I/O timer is armed iff the operation has a time-out");
    if TIMER == 1 {
        assert!(!unsafe { CO_PUBLISHED_AT_TIMER }, "[C18.2-arm-before-publish] the timer is armed before the coroutine is published (whoever takes the coroutine must find the timer to disarm)");
    }
    if READY {
        assert!(resumed == 1, "[C17.2-recheck-after-publish] a readiness edge that arrived before the coroutine was published: subscribe must resume it itself, otherwise it is never woken");
        assert!(sup::resumed_id() == Some(id) && io.co.take().is_none(), "[C17.2-recheck-after-publish] a readiness edge that arrived before the coroutine was published: subscribe must resume it itself, otherwise it is never woken");
    } else if CANCELLED {
        assert!(resumed == 1, "[C18.4-recheck-cancel] a cancel that arrived before the registration makes subscribe reschedule the coroutine, once");
        assert!(io.co.take().is_none(), "[C18.4-taken] the cancelled coroutine was taken out of the I/O slot");
    } else {
        assert!(resumed == 0, "[C17.2-stays-parked] without readiness and cancel the coroutine stays parked in the I/O slot");
        let parked = io.co.take();
        assert!(parked.as_ref().map(|c| c.shim_id()) == Some(id), "[C17.2-published] the parked coroutine sits in the I/O slot for the selector");
        std::mem::forget(parked);
    }
    sup::leave_coroutine();
}

/// ordering inside subscribe: every read of the readiness flag happens with the coroutine already published, and
/// there is at least one such read
pub(crate) fn subscribe_order<S: EventSource, MK: Fn(&'static IoData, bool) -> S>(mk: MK) {
    sup::trace_reset();
    sup::scheduler_reset();
    let _h = sup::enter_coroutine();
    let io = mk_io();
    let mut r = mk(io, false);
    let mut co: crate::coroutine_impl::CoroutineImpl = generator::shim_new_empty(0x1000);
    co.set_local_data(unsafe { generator::ghost::CUR_LOCAL });
    unsafe {
        FLAG_LOADS = 0;
        CHECK_FLAG_LOADS = true;
    }
    EventSource::subscribe(&mut r, co);
    std::mem::forget(r);
    unsafe { CHECK_FLAG_LOADS = false };
    assert!(unsafe { FLAG_LOADS } >= 1, "[C17.2-recheck-exists] subscribe must re-read the readiness flag after publishing the coroutine");
    sup::leave_coroutine();
}

// ------------------------------------------------------------------------------------------------
// caller side: the try-io / re-check / yield loop (`done`) of every operation, against a scripted kernel
// ------------------------------------------------------------------------------------------------
pub(crate) static mut SYSCALLS: usize = 0;
pub(crate) static mut YIELDS: usize = 0;
/// script of the kernel: result of the k-th attempt: 0 would-block, 1 Ok, 2 a fatal OS error (ECONNRESET)
pub(crate) static mut SCRIPT: [u8; 3] = [0; 3];
/// the selector reports readiness (sets the flag) right after the k-th attempt returned would-block (usize::MAX: never)
pub(crate) static mut EDGE_AFTER: usize = usize::MAX;
pub(crate) static mut OK_N: usize = 0;

/// what every stubbed syscall does first; returns the scripted outcome of this attempt
pub(crate) fn syscall_step() -> u8 {
    unsafe {
        let io = &*IO;
        assert!(io.io_flag.load(Ordering::Relaxed) == 0, "[C17.1-clear-before-syscall] the readiness flag must be cleared BEFORE the non-blocking syscall (an edge that arrives during the syscall would be wiped out afterwards)");
        let k = SYSCALLS;
        SYSCALLS += 1;
        assert!(k == 0 || (k <= 3 && SCRIPT[k - 1] == 0), "[C17.1-stops-at-final-result] another attempt is made although the previous one returned a final result (success or a fatal error): that result is lost");
        if k >= 3 {
            kani::assume(false);
        }
        let r = SCRIPT[k];
        if r == 0 && EDGE_AFTER == k {
            // the kernel became ready right after this attempt returned would-block: the selector sets the flag
            io.io_flag.fetch_or(1, Ordering::Release);
        }
        r
    }
}

/// contract of the suspension: the coroutine is resumed when the socket became ready (the selector sets the flag
/// and takes the coroutine). Reaching this point while an edge is already recorded in the flag is the bug.
pub(crate) fn yield_stub<T: EventSource>(_r: &T, _is_co: bool) {
    unsafe {
        let io = &*IO;
        YIELDS += 1;
        assert!(io.io_flag.load(Ordering::Relaxed) == 0, "[C17.1-recheck-before-yield] the caller suspends although the readiness flag is set: the edge was consumed and nobody will wake it");
        // resumed by a later readiness event
        io.io_flag.fetch_or(1, Ordering::Release);
    }
}

/// `co_io_result` restricted to its coroutine branch (verbatim copy of that branch). The thread branch reads a
/// lazily initialised thread-local with a destructor, which reaches `catch_unwind` and crashes kani-compiler 0.68.
pub(crate) fn co_io_result_coroutine_branch(is_coroutine: bool) -> std::io::Result<()> {
    assert!(is_coroutine);
    match crate::yield_now::get_co_para() {
        None => Ok(()),
        Some(err) => Err(err),
    }
}

pub(crate) const FATAL: i32 = libc::ECONNRESET;

/// the `done` loop of one operation in coroutine context against ONE concrete kernel script (a symbolic script merges
/// `io::Error` values, and every merged error drags the bit-packed Repr decoding and the `Box<dyn Error>` drop glue into
/// the verification condition). The flag is stale (set) on entry; the byte count of a successful attempt stays symbolic.
pub(crate) fn done_scenario<S, R, MK: Fn(&'static IoData, bool) -> S, DN: Fn(&mut S) -> std::io::Result<R>, CK: Fn(&R) -> bool>(mk: MK, done: DN, check_ok: CK, script: [u8; 3], edge_after: usize, pending: bool) {
    let _h = sup::enter_coroutine();
    let io = mk_io();
    unsafe {
        SYSCALLS = 0;
        YIELDS = 0;
        SCRIPT = script;
        OK_N = kani::any();
        kani::assume(OK_N <= 4);
        EDGE_AFTER = edge_after;
    }
    if pending {
        sup::set_current_para(Some(std::io::Error::from(std::io::ErrorKind::TimedOut)));
    }
    // a stale flag from an earlier operation
    io.io_flag.store(1, Ordering::Relaxed);
    let mut r = mk(io, false);
    let res = done(&mut r);
    std::mem::forget(r);
    if pending {
        assert!(unsafe { SYSCALLS } == 0, "[C17.1-pending-error-first] a pending time-out / cancel result is returned before any syscall");
        assert!(res.as_ref().err().map(|e| e.kind()) == Some(std::io::ErrorKind::TimedOut), "[C17.1-pending-error-first] a pending time-out / cancel result is returned before any syscall");
    } else {
        // the first entry of the script that is not would-block decides
        let k = unsafe { SYSCALLS } - 1;
        let last = script[k];
        assert!(last != 0, "[C17.1-returns-kernel-result] done() returned without a final kernel result");
        assert!((k == 0 || script[0] == 0) && (k <= 1 || script[1] == 0), "[C17.1-returns-kernel-result] done() went on after a final kernel result");
        match &res {
            Ok(v) => assert!(last == 1 && check_ok(v), "[C17.1-ok-verbatim] a successful attempt is returned exactly as the kernel reported it"),
            Err(e) => assert!(last == 2 && e.raw_os_error() == Some(FATAL), "[C17.1-error-verbatim] a kernel error is returned as that OS error"),
        }
        // one suspension per would-block that was not followed by an edge
        let mut expected_yields = 0;
        let mut i = 0;
        while i < k {
            if edge_after != i {
                expected_yields += 1;
            }
            i += 1;
        }
        assert!(unsafe { YIELDS } == expected_yields, "[C17.1-yield-iff-no-edge] the caller suspends exactly after the failed attempts that were not followed by a readiness edge");
    }
    std::mem::forget(res);
    sup::leave_coroutine();
}

/// the scenarios every operation is run against, ONE per harness (running several in one harness exhausts CBMC's memory):
/// 0: would-block then a fatal error, no readiness edge (one suspension); 1: the same with a readiness edge right after the
/// failed attempt (retry without suspending); 2: a pending time-out result; 3: would-block then success
pub(crate) fn done_scenario_n<S, R, const N: usize, MK: Fn(&'static IoData, bool) -> S, DN: Fn(&mut S) -> std::io::Result<R>, CK: Fn(&R) -> bool>(mk: MK, done: DN, check_ok: CK) {
    match N {
        0 => done_scenario(mk, done, check_ok, [0, 2, 2], usize::MAX, false),
        1 => done_scenario(mk, done, check_ok, [0, 2, 2], 0, false),
        2 => done_scenario(mk, done, check_ok, [0, 2, 2], usize::MAX, true),
        _ => done_scenario(mk, done, check_ok, [0, 1, 2], usize::MAX, false),
    }
}
