//! White-box helper for `park.rs` (no obligations). Child module of `park.rs`.
//@ file-inject: src/park.rs
use super::*;

impl Park {
    /// white box: is the park token set?
    pub(crate) fn vk_token(&self) -> bool {
        self.state.load(Ordering::Acquire)
    }
}
