//! C15 / C01 — the pool of recycled coroutine stacks: a stack that was put back is handed out to at most one later
//! spawn, the pool never holds more than its capacity, and its size counter follows its content. Child module of
//! `pool.rs`. The SegQueue is replaced by the abstract FIFO (trusted crossbeam contract), the configured capacity is
//! symbolic, `create_dummy_coroutine` is the shim's empty generator.
//@ file-inject: src/pool.rs
//@ file-property: C15
use super::*;
use crate::coroutine_impl::vk_support as sup;

static mut CAP: usize = 0;
static mut CREATED: usize = 0;
static mut LAST_CREATED_ID: usize = 0;

fn capacity_stub(_c: &crate::config::Config) -> usize {
    unsafe { CAP }
}
fn create_stub() -> CoroutineImpl {
    let co: CoroutineImpl = generator::shim_new_empty(0x1000);
    unsafe {
        CREATED += 1;
        LAST_CREATED_ID = co.shim_id();
    }
    co
}

//@ obligation: C15.4a
//@ property: C15 C01
//@ kind: K2
//@ complete: no
//@ bound: every capacity and every size-counter value; the pool itself holds zero or one stack
//@ functions: CoroutinePool::put, CoroutinePool::get
//@ statement: whether or not put keeps the stack (capacity policy, not demanded): get hands out a pooled stack if there is one — removing it, so that the next get
//@ statement: cannot return it again — and otherwise a freshly created one; no stack is ever handed to two spawns
#[kani::proof]
#[kani::stub(crate::scheduler::get_scheduler, sup::get_scheduler_stub)]
#[kani::stub(crossbeam::queue::SegQueue::push, sup::seg_push_stub)]
#[kani::stub(crossbeam::queue::SegQueue::pop, sup::seg_pop_stub)]
#[kani::stub(crate::config::Config::get_pool_capacity, capacity_stub)]
#[kani::stub(crate::pool::CoroutinePool::create_dummy_coroutine, create_stub)]
#[kani::unwind(3)]
fn c15_4a_pool_hands_a_stack_out_once() {
    sup::gq_reset();
    let size0: usize = kani::any();
    unsafe {
        CAP = kani::any();
        kani::assume(CAP >= 1);
        CREATED = 0;
    }
    kani::assume(size0 < usize::MAX);
    let pool: &'static CoroutinePool = Box::leak(Box::new(CoroutinePool { pool: unsafe { std::mem::MaybeUninit::zeroed().assume_init() }, size: AtomicUsize::new(size0) }));
    let co: CoroutineImpl = generator::shim_new_empty(0x1000);
    let id = co.shim_id();
    pool.put(co);
    let stored = sup::gq_len() == 1;
    let a = pool.get();
    if stored {
        assert!(a.shim_id() == id && unsafe { CREATED } == 0 && sup::gq_len() == 0, "[C15.4-reuse-once] get hands out the pooled stack and removes it from the pool");
    } else {
        assert!(unsafe { CREATED } == 1 && a.shim_id() == unsafe { LAST_CREATED_ID }, "[C15.4-fresh-when-empty] an empty pool hands out a freshly created stack");
    }
    let created_before = unsafe { CREATED };
    let b = pool.get();
    assert!(b.shim_id() != a.shim_id() && unsafe { CREATED } == created_before + 1, "[C15.4-never-twice] the same stack is handed to two spawns");
    std::mem::forget(a);
    std::mem::forget(b);
}
