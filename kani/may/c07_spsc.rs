//! C06 / C07 (spsc channel): the coroutine receiver registers in `subscribe` and must re-check EVERY wake
//! condition there; send / drop of the sender wake a registered receiver exactly once.
//! Child module of `sync/spsc.rs`. The real `may_queue::spsc::Queue` is used (no packed pointers).
//@ file-inject: src/sync/spsc.rs
//@ file-property: C06 C07
use super::*;
use crate::coroutine_impl::vk_support as sup;

fn registered<T>(q: &InnerQueue<T>) -> bool {
    match q.wait_co.take() {
        Some(b) => {
            q.wait_co.store(b);
            true
        }
        None => false,
    }
}

fn resumptions() -> usize {
    sup::count(sup::E_SCHEDULE) + sup::count(sup::E_RUN)
}

/// the worker side of a coroutine recv: `Park::subscribe`, called directly from a concrete pre-state
fn subscribe_from<const QUEUED: bool, const SENDER_GONE: bool>() {
    sup::trace_reset();
    sup::scheduler_reset();
    let _h = sup::enter_coroutine();
    let q: &'static InnerQueue<u8> = Box::leak(Box::new(InnerQueue::new()));
    // what the sender side did just before the worker subscribes (its wake-up found nobody registered)
    if QUEUED {
        assert!(q.send(5).is_ok());
    }
    if SENDER_GONE {
        q.drop_chan();
    }
    assert!(resumptions() == 0 && !registered(q));
    let mut co: CoroutineImpl = generator::shim_new_empty(0x1000);
    co.set_local_data(unsafe { generator::ghost::CUR_LOCAL });
    let id = co.shim_id();
    let mut park = Park::new(q);
    EventSource::subscribe(&mut park, co);
    assert!(!park.wait_kernel.load(Ordering::Relaxed), "[C07.2-kernel-flag] the in-kernel flag is cleared when subscribe returns");
    if QUEUED || SENDER_GONE {
        assert!(resumptions() == 1, "[C07.2-recheck-all-conditions] a value / the sender's drop arrived before the registration: subscribe must resume the coroutine itself, otherwise it sleeps forever");
        assert!(sup::resumed_id() == Some(id) && !registered(q), "[C07.2-recheck-all-conditions] a value / the sender's drop arrived before the registration: subscribe must resume the coroutine itself, otherwise it sleeps forever");
    } else {
        assert!(resumptions() == 0 && registered(q), "[C06.3-stays-registered] with nothing to receive the coroutine stays registered");
        // later: the send finds it and hands it to the scheduler exactly once
        assert!(q.send(9).is_ok());
        assert!(resumptions() == 1 && !registered(q), "[C06.3-send-wakes] a send wakes the registered receiver exactly once");
        assert!(sup::resumed_id() == Some(id), "[C06.3-send-wakes] a send wakes the registered receiver exactly once");
        assert!(q.try_recv() == Ok(9), "[C06.3-delivered] the woken receiver finds exactly the value sent");
    }
    std::mem::forget(park);
    sup::leave_coroutine();
}

//@ obligation: C07.2a
//@ property: C07
//@ kind: K3
//@ complete: yes
//@ functions: spsc::Park::subscribe, spsc::InnerQueue::send, InnerQueue::drop_chan, InnerQueue::try_recv, spsc::Blocker::unpark
//@ statement: spsc coroutine receiver, pre-state [nothing queued, sender alive]: subscribe leaves the coroutine registered; the next send takes it and
//@ statement: hands it to the scheduler exactly once and the receiver then finds exactly the value sent
#[kani::proof]
#[kani::stub(crate::scheduler::get_scheduler, sup::get_scheduler_stub)]
#[kani::stub(crate::scheduler::Scheduler::schedule, sup::schedule_stub)]
#[kani::stub(crate::coroutine_impl::run_coroutine, sup::run_coroutine_stub)]
#[kani::stub(<crate::park::Park as std::ops::Drop>::drop, sup::park_drop_noop)]
#[kani::unwind(4)]
fn c07_2a_spsc_subscribe_nothing_pending() {
    subscribe_from::<false, false>();
}

//@ obligation: C07.2b
//@ property: C07
//@ kind: K3
//@ complete: yes
//@ functions: spsc::Park::subscribe
//@ statement: pre-state [a value was sent after the receiver's try_recv and before the worker subscribes]: subscribe re-checks the queue and
//@ statement: resumes the coroutine itself, exactly once
#[kani::proof]
#[kani::stub(crate::scheduler::get_scheduler, sup::get_scheduler_stub)]
#[kani::stub(crate::scheduler::Scheduler::schedule, sup::schedule_stub)]
#[kani::stub(crate::coroutine_impl::run_coroutine, sup::run_coroutine_stub)]
#[kani::stub(<crate::park::Park as std::ops::Drop>::drop, sup::park_drop_noop)]
#[kani::unwind(4)]
fn c07_2b_spsc_subscribe_value_raced_ahead() {
    subscribe_from::<true, false>();
}

//@ obligation: C07.2c
//@ property: C07
//@ kind: K3
//@ complete: yes
//@ functions: spsc::Park::subscribe, spsc::InnerQueue::drop_chan
//@ statement: pre-state [the sender was dropped after the receiver's try_recv and before the worker subscribes, nothing queued]: subscribe must
//@ statement: notice the disconnect and resume the coroutine itself — otherwise no one is left to wake it
#[kani::proof]
#[kani::stub(crate::scheduler::get_scheduler, sup::get_scheduler_stub)]
#[kani::stub(crate::scheduler::Scheduler::schedule, sup::schedule_stub)]
#[kani::stub(crate::coroutine_impl::run_coroutine, sup::run_coroutine_stub)]
#[kani::stub(<crate::park::Park as std::ops::Drop>::drop, sup::park_drop_noop)]
#[kani::unwind(4)]
fn c07_2c_spsc_subscribe_sender_drop_raced_ahead() {
    subscribe_from::<false, true>();
}

//@ obligation: C07.2d
//@ property: C07
//@ kind: K2
//@ complete: yes
//@ functions: spsc::InnerQueue::try_recv, InnerQueue::send, InnerQueue::drop_chan, InnerQueue::drop_port
//@ statement: sequential contract of the spsc channel core: values come out in the order sent; after the sender is gone the queued values are
//@ statement: drained first and Disconnected is reported only with an empty queue; after the receiver is gone send returns exactly the value
#[kani::proof]
#[kani::stub(crate::scheduler::get_scheduler, sup::get_scheduler_stub)]
#[kani::stub(crate::scheduler::Scheduler::schedule, sup::schedule_stub)]
#[kani::stub(crate::coroutine_impl::run_coroutine, sup::run_coroutine_stub)]
#[kani::stub(<crate::park::Park as std::ops::Drop>::drop, sup::park_drop_noop)]
#[kani::unwind(4)]
fn c07_2d_spsc_drain_then_disconnected() {
    let q: &'static InnerQueue<u8> = Box::leak(Box::new(InnerQueue::new()));
    let a: u8 = kani::any();
    let b: u8 = kani::any();
    assert!(q.try_recv() == Err(TryRecvError::Empty), "[C07.2-empty] an empty channel with a live sender reports Empty");
    assert!(q.send(a).is_ok() && q.send(b).is_ok());
    q.drop_chan();
    assert!(q.try_recv() == Ok(a), "[C07.2-drain-first] queued values are delivered in order before Disconnected");
    assert!(q.try_recv() == Ok(b), "[C07.2-drain-first] queued values are delivered in order before Disconnected");
    assert!(q.try_recv() == Err(TryRecvError::Disconnected), "[C07.2-disconnected] with the sender gone and nothing queued the receiver gets Disconnected");
    q.drop_port();
    let c: u8 = kani::any();
    assert!(q.send(c) == Err(c), "[C07.4-send-fails] after the receiver is gone send returns exactly the value");
}

static mut SPSC_Q: *const InnerQueue<u8> = std::ptr::null();
static mut IS_EMPTY_CALLS: usize = 0;
fn is_empty_checks_registration<T>(q: &Queue<T>) -> bool {
    unsafe {
        if !SPSC_Q.is_null() {
            IS_EMPTY_CALLS += 1;
            assert!(registered(&*SPSC_Q), "[C06.3-register-before-recheck] subscribe looks at the queue before the coroutine is registered: a send landing between that look and the registration wakes nobody");
        }
    }
    q.len() == 0
}

//@ obligation: C06.3b
//@ property: C06
//@ kind: K3
//@ complete: yes
//@ functions: spsc::Park::subscribe
//@ statement: ordering inside the spsc subscribe: the coroutine is registered BEFORE the queue is re-checked, and the queue is re-checked at all
#[kani::proof]
#[kani::stub(crate::scheduler::get_scheduler, sup::get_scheduler_stub)]
#[kani::stub(crate::scheduler::Scheduler::schedule, sup::schedule_stub)]
#[kani::stub(crate::coroutine_impl::run_coroutine, sup::run_coroutine_stub)]
#[kani::stub(<crate::park::Park as std::ops::Drop>::drop, sup::park_drop_noop)]
#[kani::stub(may_queue::spsc::Queue::is_empty, is_empty_checks_registration)]
#[kani::unwind(4)]
fn c06_3b_spsc_subscribe_registers_before_recheck() {
    sup::trace_reset();
    sup::scheduler_reset();
    let _h = sup::enter_coroutine();
    let q: &'static InnerQueue<u8> = Box::leak(Box::new(InnerQueue::new()));
    let mut co: CoroutineImpl = generator::shim_new_empty(0x1000);
    co.set_local_data(unsafe { generator::ghost::CUR_LOCAL });
    unsafe {
        SPSC_Q = q;
        IS_EMPTY_CALLS = 0;
    }
    let mut park = Park::new(q);
    EventSource::subscribe(&mut park, co);
    unsafe { SPSC_Q = std::ptr::null() };
    assert!(unsafe { IS_EMPTY_CALLS } >= 1, "[C06.3-recheck-exists] subscribe must re-check the queue after registering");
    std::mem::forget(park);
    sup::leave_coroutine();
}
