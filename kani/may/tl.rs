//! White-box helpers for `timeout_list.rs` (fabricating timer handles for the abstract scheduler) and the
//! C08.2 / C08.3 obligations on the real timer list. Child module of `timeout_list.rs`.
//@ file-inject: src/timeout_list.rs
//@ file-mirror: src/scheduler.rs :: if let Some(mut co) = c.take() { // set the timeout result for the coroutine set_co_para(&mut co, io::Error::new(io::ErrorKind::TimedOut, "timeout")); // s.schedule_global(c); run_coroutine(co); }
use super::*;
use crate::coroutine_impl::vk_support as sup;
use crate::coroutine_impl::CoroutineImpl;
use crate::scheduler::Scheduler;

type TimerData = Arc<AtomicOption<CoroutineImpl>>;

/// the abstract timer thread's list: one real removable list
pub(crate) static mut TIMER_Q: *const TimeoutQueue<TimeoutData<TimerData>> = std::ptr::null();
pub(crate) static mut ADD_TIMERS: usize = 0;
pub(crate) static mut DEL_TIMERS: usize = 0;
pub(crate) static mut LAST_TIMER_DUR: Option<Duration> = None;
/// the data registered with the most recent timer (what the timer thread would `take()` on expiry)
pub(crate) static mut LAST_TIMER_DATA: Option<TimerData> = None;

pub(crate) fn timers_reset() {
    unsafe {
        let q: &'static TimeoutQueue<TimeoutData<TimerData>> = Box::leak(Box::new(TimeoutQueue::new()));
        TIMER_Q = q;
        ADD_TIMERS = 0;
        DEL_TIMERS = 0;
        std::ptr::write(&raw mut LAST_TIMER_DUR, None);
        std::ptr::write(&raw mut LAST_TIMER_DATA, None);
    }
}

/// abstract `Scheduler::add_timer`: records the duration and the data and returns a real list handle
pub(crate) fn add_timer_stub(_s: &Scheduler, dur: Duration, co: TimerData) -> TimeoutHandle<TimerData> {
    sup::ev(sup::E_ADD_TIMER);
    unsafe {
        ADD_TIMERS += 1;
        std::ptr::write(&raw mut LAST_TIMER_DUR, Some(dur));
        std::ptr::write(&raw mut LAST_TIMER_DATA, Some(co.clone()));
        let (h, _) = (*TIMER_Q).push(TimeoutData { time: 0, data: co });
        h
    }
}

/// abstract `Scheduler::del_timer`: the timer thread removes the entry
pub(crate) fn del_timer_stub(_s: &Scheduler, h: TimeoutHandle<TimerData>) {
    sup::ev(sup::E_DEL_TIMER);
    unsafe { DEL_TIMERS += 1 };
    std::mem::forget(h);
}

/// what the timer thread does when the entry expires (scheduler.rs `timer_event_handler`, a closure inside
/// `init_scheduler` that cannot be called from a harness; this is a copy, except for the error payload): take the coroutine,
/// hand it the TimedOut result, run it
pub(crate) fn timer_fires(c: &TimerData) {
    if let Some(mut co) = c.take() {
        // (the real closure builds `io::Error::new(TimedOut, "timeout")`; same kind, no heap payload — see io_error_other_stub)
        crate::yield_now::set_co_para(&mut co, std::io::Error::from(std::io::ErrorKind::TimedOut));
        crate::coroutine_impl::run_coroutine(co);
    }
}

static mut NOW: u64 = 0;
fn now_stub() -> u64 {
    unsafe { NOW }
}

//@ obligation: C08.2a
//@ tier: experimental
//@ property: C08 C18
//@ kind: K1
//@ complete: no
//@ bound: durations below 2^32 seconds, clock below 2^62 ns; first timer of its interval (the hash map holds no list for it yet)
//@ timeout: 900
//@ functions: TimeOutList::add_timer, TimeOutList::install_timer_bh
//@ statement: add_timer(d) creates an entry that expires at exactly now + d in nanoseconds — not earlier (no rounding down of the requested
//@ statement: duration) and not later — and reports that the timer thread has to recompute its next wake-up
#[kani::proof]
#[kani::stub(crate::timeout_list::now, now_stub)]
#[kani::unwind(3)]
fn c08_2a_add_timer_deadline_is_exact() {
    let secs: u64 = kani::any();
    let nanos: u32 = kani::any();
    kani::assume(secs < (1 << 32) && nanos < 1_000_000_000);
    let d = Duration::new(secs, nanos);
    let now: u64 = kani::any();
    kani::assume(now < (1 << 62));
    unsafe { NOW = now };
    let l: &'static TimeOutList<u8> = Box::leak(Box::new(TimeOutList {
        interval_map: RwLock::new(HashMap::new()),
        timer_bh: Mutex::new(BinaryHeap::new()),
    }));
    let (h, is_new) = l.add_timer(d, 7u8);
    let mut t = 0u64;
    unsafe { h.with_mut_data(|data| t = data.time) };
    let want = now + secs * 1_000_000_000 + nanos as u64;
    assert!(t >= want, "[C08.2-deadline-not-early] the timer entry expires before now + d: the timed wait fires early");
    assert!(t == want, "[C08.2-deadline-exact] the timer entry does not expire at now + d");
    assert!(is_new, "[C08.2-recalc] the first timer of an interval makes the timer thread recompute its wake-up");
    kani::cover!(nanos % 1_000_000 != 0, "non-integral millisecond duration");
    std::mem::forget(h);
}

/// white-box constructor for harnesses outside this module
pub(crate) fn mk_timeout_data<T>(data: T) -> TimeoutData<T> {
    TimeoutData { time: 0, data }
}

/// a timer list of which only the (empty) heap exists: `schedule_timer` on it looks at the heap, finds nothing and returns
/// None without touching the interval map (HashMap construction alone exceeds CBMC's budget)
pub(crate) unsafe fn init_empty_heap_only<T>(p: *mut TimeOutList<T>) {
    std::ptr::addr_of_mut!((*p).timer_bh).write(Mutex::new(BinaryHeap::new()));
}
