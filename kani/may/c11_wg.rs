//! C11 (WaitGroup part): wait returns exactly when every other clone has been dropped. Child module of `sync/wait_group.rs`.
//@ file-needs: c05 pz cz blk
//@ file-inject: src/sync/wait_group.rs
//@ file-property: C11
use super::*;
use crate::coroutine_impl::vk_support as sup;
use crate::sync::mutex::vk_c05 as mx;
use crate::sync::MutexGuard;
use std::sync::LockResult;

static mut NOTIFY_ALLS: usize = 0;
static mut CV_WAITS: usize = 0;
static mut WG: *const Inner = std::ptr::null();
static mut OTHERS_LEFT: usize = 0;

fn notify_all_count(_c: &Condvar) {
    unsafe { NOTIFY_ALLS += 1 };
}

/// contract of Condvar::wait as used here: while the caller is blocked one other clone is dropped
/// (count - 1, and the last one notifies); the mutex is held again at return
fn cv_wait_env<'a, T>(_c: &Condvar, guard: MutexGuard<'a, T>) -> LockResult<MutexGuard<'a, T>> {
    unsafe {
        CV_WAITS += 1;
        let cnt = mx::peek_mut(&(*WG).count);
        assert!(*cnt > 0, "[C11.5-wait-only-if-others] wait blocks only while another clone is alive");
        assert!(OTHERS_LEFT > 0, "[C11.5-no-hang] wait blocks although every other clone has been dropped");
        *cnt -= 1;
        OTHERS_LEFT -= 1;
    }
    Ok(guard)
}

fn waitgroup_counts<const K: usize>() {
    mx::m_reset(false);
    sup::gq_reset();
    unsafe {
        NOTIFY_ALLS = 0;
        CV_WAITS = 0;
        sup::ON_POISON_ERROR = None;
    }
    let wg = WaitGroup::new();
    // one reference is leaked so that the (expensive, irrelevant) destructor of the queues never runs
    std::mem::forget(wg.inner.clone());
    unsafe { WG = &*wg.inner };
    let k: usize = K;
    let c1 = if k >= 1 { Some(wg.clone()) } else { None };
    let c2 = if k >= 2 { Some(wg.clone()) } else { None };
    assert!(*mx::peek_mut(&wg.inner.count) == 1 + k, "[C11.5-clone-counts] every clone adds one to the count");
    unsafe { OTHERS_LEFT = k };
    // the other clones are dropped by the environment while the waiter blocks (cv_wait_env)
    std::mem::forget(c1);
    std::mem::forget(c2);
    let inner = wg.inner.clone();
    wg.wait();
    assert!(unsafe { OTHERS_LEFT } == 0, "[C11.5-not-early] wait returned while another clone was still alive");
    assert!(unsafe { CV_WAITS } == k, "[C11.5-blocks-until-zero] wait blocks once per remaining clone and not at all when alone");
    if k > 0 {
        assert!(*mx::peek_mut(&inner.count) == 0, "[C11.5-own-unit] a blocking wait gives up its own unit");
    }
    assert!(!unsafe { mx::M_HELD }, "[C11.5-mutex-released] the count mutex is released at return");
    std::mem::forget(inner);
}


//@ obligation: C11.5a0
//@ kind: K2
//@ complete: no
//@ tier: thorough
//@ bound: 0 other clone(s) alive when wait() is called (dropped one by one while the waiter is blocked)
//@ timeout: 1800
//@ mem: 30
//@ functions: WaitGroup::new, WaitGroup::clone, WaitGroup::wait, WaitGroup::drop
//@ statement: clone adds one to the count, drop removes one and the last drop notifies all; wait() returns at once iff no other clone is alive,
//@ statement: otherwise it gives up its own unit and blocks exactly until the count reaches zero — never returning while another clone is alive
#[kani::proof]
#[kani::stub(crate::scheduler::get_scheduler, sup::get_scheduler_stub)]
#[kani::stub(<crate::park::Park as std::ops::Drop>::drop, sup::park_drop_noop)]
#[kani::stub(crate::sync::mutex::Mutex::lock, mx::mutex_lock_contract)]
#[kani::stub(crate::sync::mutex::Mutex::unlock, mx::mutex_unlock_contract)]
#[kani::stub(crate::sync::condvar::Condvar::wait, cv_wait_env)]
#[kani::stub(crate::sync::condvar::Condvar::notify_all, notify_all_count)]
#[kani::stub(std::sync::PoisonError::new, sup::poison_error_new_stub)]
#[kani::stub(crossbeam::queue::SegQueue::push, sup::seg_push_stub)]
#[kani::stub(crossbeam::queue::SegQueue::pop, sup::seg_pop_stub)]
#[kani::stub(may_queue::mpsc::Queue::push, sup::mq_push_stub)]
#[kani::stub(may_queue::mpsc::Queue::pop, sup::mq_pop_stub)]
#[kani::unwind(5)]
fn c11_5a_waitgroup_counts_0() {
    waitgroup_counts::<0>();
}

//@ obligation: C11.5a1
//@ kind: K2
//@ complete: no
//@ tier: experimental
//@ bound: 1 other clone(s) alive when wait() is called (dropped one by one while the waiter is blocked)
//@ timeout: 1800
//@ mem: 30
//@ functions: WaitGroup::new, WaitGroup::clone, WaitGroup::wait, WaitGroup::drop
//@ statement: clone adds one to the count, drop removes one and the last drop notifies all; wait() returns at once iff no other clone is alive,
//@ statement: otherwise it gives up its own unit and blocks exactly until the count reaches zero — never returning while another clone is alive
#[kani::proof]
#[kani::stub(crate::scheduler::get_scheduler, sup::get_scheduler_stub)]
#[kani::stub(<crate::park::Park as std::ops::Drop>::drop, sup::park_drop_noop)]
#[kani::stub(crate::sync::mutex::Mutex::lock, mx::mutex_lock_contract)]
#[kani::stub(crate::sync::mutex::Mutex::unlock, mx::mutex_unlock_contract)]
#[kani::stub(crate::sync::condvar::Condvar::wait, cv_wait_env)]
#[kani::stub(crate::sync::condvar::Condvar::notify_all, notify_all_count)]
#[kani::stub(std::sync::PoisonError::new, sup::poison_error_new_stub)]
#[kani::stub(crossbeam::queue::SegQueue::push, sup::seg_push_stub)]
#[kani::stub(crossbeam::queue::SegQueue::pop, sup::seg_pop_stub)]
#[kani::stub(may_queue::mpsc::Queue::push, sup::mq_push_stub)]
#[kani::stub(may_queue::mpsc::Queue::pop, sup::mq_pop_stub)]
#[kani::unwind(5)]
fn c11_5a_waitgroup_counts_1() {
    waitgroup_counts::<1>();
}

//@ obligation: C11.5a2
//@ kind: K2
//@ complete: no
//@ tier: experimental
//@ bound: 2 other clone(s) alive when wait() is called (dropped one by one while the waiter is blocked)
//@ timeout: 1800
//@ mem: 30
//@ functions: WaitGroup::new, WaitGroup::clone, WaitGroup::wait, WaitGroup::drop
//@ statement: clone adds one to the count, drop removes one and the last drop notifies all; wait() returns at once iff no other clone is alive,
//@ statement: otherwise it gives up its own unit and blocks exactly until the count reaches zero — never returning while another clone is alive
#[kani::proof]
#[kani::stub(crate::scheduler::get_scheduler, sup::get_scheduler_stub)]
#[kani::stub(<crate::park::Park as std::ops::Drop>::drop, sup::park_drop_noop)]
#[kani::stub(crate::sync::mutex::Mutex::lock, mx::mutex_lock_contract)]
#[kani::stub(crate::sync::mutex::Mutex::unlock, mx::mutex_unlock_contract)]
#[kani::stub(crate::sync::condvar::Condvar::wait, cv_wait_env)]
#[kani::stub(crate::sync::condvar::Condvar::notify_all, notify_all_count)]
#[kani::stub(std::sync::PoisonError::new, sup::poison_error_new_stub)]
#[kani::stub(crossbeam::queue::SegQueue::push, sup::seg_push_stub)]
#[kani::stub(crossbeam::queue::SegQueue::pop, sup::seg_pop_stub)]
#[kani::stub(may_queue::mpsc::Queue::push, sup::mq_push_stub)]
#[kani::stub(may_queue::mpsc::Queue::pop, sup::mq_pop_stub)]
#[kani::unwind(5)]
fn c11_5a_waitgroup_counts_2() {
    waitgroup_counts::<2>();
}

//@ obligation: C11.5b
//@ kind: K2
//@ complete: yes
//@ functions: WaitGroup::drop
//@ statement: dropping a clone decrements the count by one and calls notify_all iff the count reached zero, for every count value >= 1
#[kani::proof]
#[kani::stub(crate::scheduler::get_scheduler, sup::get_scheduler_stub)]
#[kani::stub(<crate::park::Park as std::ops::Drop>::drop, sup::park_drop_noop)]
#[kani::stub(crate::sync::mutex::Mutex::lock, mx::mutex_lock_contract)]
#[kani::stub(crate::sync::mutex::Mutex::unlock, mx::mutex_unlock_contract)]
#[kani::stub(crate::sync::condvar::Condvar::notify_all, notify_all_count)]
#[kani::stub(std::sync::PoisonError::new, sup::poison_error_new_stub)]
#[kani::stub(crossbeam::queue::SegQueue::push, sup::seg_push_stub)]
#[kani::stub(crossbeam::queue::SegQueue::pop, sup::seg_pop_stub)]
#[kani::stub(may_queue::mpsc::Queue::push, sup::mq_push_stub)]
#[kani::stub(may_queue::mpsc::Queue::pop, sup::mq_pop_stub)]
#[kani::unwind(3)]
fn c11_5b_waitgroup_drop_notifies_at_zero() {
    mx::m_reset(false);
    sup::gq_reset();
    unsafe {
        NOTIFY_ALLS = 0;
        sup::ON_POISON_ERROR = None;
    }
    let wg = WaitGroup::new();
    std::mem::forget(wg.inner.clone());
    let inner = wg.inner.clone();
    let c: usize = kani::any();
    kani::assume(c >= 1);
    *mx::peek_mut(&inner.count) = c;
    drop(wg);
    assert!(*mx::peek_mut(&inner.count) == c - 1, "[C11.5-drop-counts] dropping a clone removes exactly one unit");
    assert!(unsafe { NOTIFY_ALLS } == if c == 1 { 1 } else { 0 }, "[C11.5-last-notifies] the waiters are notified exactly when the last clone is dropped");
    std::mem::forget(inner);
}
