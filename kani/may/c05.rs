//! C05 — Mutex: mutual exclusion accounting and no stranded waiter. Child module of `sync/mutex.rs`.
//!
//! The wait queue (`may_queue::mpsc::Queue`, contract = FIFO, C03) is replaced by an abstract FIFO; the
//! waiter's `SyncBlocker` runs against the one-waker environment of `vk_blk` (every interleaving of one
//! concurrent `unpark_one` with the real `lock` code).
//@ file-needs: blk pz
//@ file-inject: src/sync/mutex.rs
//@ file-property: C05
use super::*;
use crate::coroutine_impl::vk_support as sup;
use crate::sync::blocking::vk_blk as env;

pub(crate) fn peek_ref<T>(m: &Mutex<T>) -> &T {
    unsafe { &*m.data.get() }
}

#[allow(clippy::mut_from_ref)]
pub(crate) fn peek_mut<T>(m: &Mutex<T>) -> &mut T {
    unsafe { &mut *m.data.get() }
}

/// white-box read of the protected value without taking the lock (used by C12 for the reader count)
pub(crate) fn peek_data<T: Copy>(m: &Mutex<T>) -> T {
    unsafe { *m.data.get() }
}

// ---- abstract Mutex for the callers' harnesses (Condvar / Barrier / WaitGroup): contract = C05 ----
pub(crate) static mut M_LOCKS: usize = 0;
pub(crate) static mut M_UNLOCKS: usize = 0;
/// is the abstract mutex currently held by the caller under test?
pub(crate) static mut M_HELD: bool = false;
pub(crate) static mut ON_M_UNLOCK: Option<fn()> = None;
pub(crate) static mut ON_M_LOCK: Option<fn()> = None;

pub(crate) fn m_reset(held: bool) {
    unsafe {
        M_LOCKS = 0;
        M_UNLOCKS = 0;
        M_HELD = held;
        ON_M_UNLOCK = None;
        ON_M_LOCK = None;
    }
}

/// `Mutex::lock` replaced by its contract: returns the guard, the caller now holds the mutex
pub(crate) fn mutex_lock_contract<T: ?Sized>(m: &Mutex<T>) -> LockResult<MutexGuard<'_, T>> {
    unsafe {
        assert!(!M_HELD, "[C11.x-no-self-deadlock] the mutex is locked while the caller already holds it");
        M_LOCKS += 1;
        M_HELD = true;
        if let Some(f) = ON_M_LOCK {
            f();
        }
    }
    Ok(MutexGuard {
        __lock: m,
        __poison: poison::Guard::vk_new(),
    })
}

/// `Mutex::unlock` replaced by its contract
pub(crate) fn mutex_unlock_contract<T: ?Sized>(_m: &Mutex<T>) {
    unsafe {
        assert!(M_HELD, "[C11.x-unlock-held] the mutex is unlocked while the caller does not hold it");
        M_UNLOCKS += 1;
        M_HELD = false;
        if let Some(f) = ON_M_UNLOCK {
            f();
        }
    }
}

// ---- abstract FIFO standing in for may_queue::mpsc::Queue<Arc<SyncBlocker>> ----
const GQ_CAP: usize = 4;
static mut GQ: [*mut u8; GQ_CAP] = [std::ptr::null_mut(); GQ_CAP];
static mut GQ_HEAD: usize = 0;
static mut GQ_TAIL: usize = 0;
static mut Q_PUSHES: usize = 0;
static mut Q_POPS: usize = 0;
/// value of `cnt` observed when the waiter registered itself
static mut CNT_AT_PUSH: usize = 0;
static mut MUTEX_CNT: *const AtomicUsize = std::ptr::null();
/// environment action at the registration point: the current holder releases the lock (no waiter seen)
static mut HOLDER_RELEASES_AT_PUSH: bool = false;

fn gq_reset() {
    unsafe {
        GQ_HEAD = 0;
        GQ_TAIL = 0;
        Q_PUSHES = 0;
        Q_POPS = 0;
        HOLDER_RELEASES_AT_PUSH = false;
    }
}

fn q_push_stub<T>(_q: &Queue<T>, v: T) {
    unsafe {
        Q_PUSHES += 1;
        assert!(GQ_TAIL < GQ_CAP, "ghost queue capacity");
        GQ[GQ_TAIL] = Box::into_raw(Box::new(v)) as *mut u8;
        GQ_TAIL += 1;
        if !MUTEX_CNT.is_null() {
            if HOLDER_RELEASES_AT_PUSH {
                // the holder's unlock ran to completion just before: it saw cnt == 1 and woke nobody
                (*MUTEX_CNT).store(0, Ordering::SeqCst);
            }
            CNT_AT_PUSH = (*MUTEX_CNT).load(Ordering::SeqCst);
        }
    }
}

fn q_pop_stub<T>(_q: &Queue<T>) -> Option<T> {
    unsafe {
        if GQ_HEAD == GQ_TAIL {
            return None;
        }
        Q_POPS += 1;
        let p = GQ[GQ_HEAD];
        GQ_HEAD += 1;
        Some(*Box::from_raw(p as *mut T))
    }
}

static mut UNLOCKS: usize = 0;
fn unlock_count_stub<T: ?Sized>(_m: &Mutex<T>) {
    unsafe { UNLOCKS += 1 };
}

static mut BLOCKER_UNPARKS: usize = 0;
fn blocker_unpark_count(_b: &crate::sync::Blocker) {
    unsafe { BLOCKER_UNPARKS += 1 };
}

//@ obligation: C05.1a
//@ kind: K2
//@ complete: yes
//@ functions: Mutex::try_lock, Mutex::unlock, MutexGuard::drop, MutexGuard::new
//@ statement: for every value of the holder/waiter count: try_lock succeeds iff the count is 0 and then makes it 1; a failing try_lock changes
//@ statement: nothing and never parks; dropping the guard releases exactly one unit and wakes nobody when no waiter is registered
#[kani::proof]
#[kani::stub(<crate::park::Park as std::ops::Drop>::drop, sup::park_drop_noop)]
#[kani::stub(crate::scheduler::get_scheduler, sup::get_scheduler_stub)]
#[kani::stub(may_queue::mpsc::Queue::push, q_push_stub)]
#[kani::stub(may_queue::mpsc::Queue::pop, q_pop_stub)]
#[kani::stub(crate::sync::blocking::SyncBlocker::park, env::park_env)]
#[kani::unwind(3)]
fn c05_1a_try_lock_accounting() {
    gq_reset();
    env::env_reset(false, false, false, 0);
    let m: &'static Mutex<u8> = Box::leak(Box::new(Mutex::new(0u8)));
    let c0: usize = kani::any();
    kani::assume(c0 <= 3);
    m.cnt.store(c0, Ordering::SeqCst);
    let r = m.try_lock();
    assert!(unsafe { env::PARKS } == 0, "[C05.1-try-never-parks] try_lock never blocks");
    match r {
        Ok(g) => {
            assert!(c0 == 0, "[C05.1-try-excl] try_lock succeeded while the lock was held");
            assert!(m.cnt.load(Ordering::SeqCst) == 1, "[C05.1-try-count] a successful try_lock makes the count 1");
            assert!(m.try_lock().is_err(), "[C05.1-try-excl] a second try_lock must fail while the guard lives");
            drop(g);
            assert!(m.cnt.load(Ordering::SeqCst) == 0, "[C05.1-drop-releases] dropping the guard releases the lock");
            assert!(unsafe { Q_POPS } == 0, "[C05.1-no-waiter-no-pop] no waiter is popped when none is registered");
            assert!(m.try_lock().is_ok(), "[C05.1-relock] the lock can be taken again after the guard is dropped");
        }
        Err(TryLockError::WouldBlock) => {
            assert!(c0 != 0, "[C05.1-try-free] try_lock failed on a free lock");
            assert!(m.cnt.load(Ordering::SeqCst) == c0, "[C05.1-try-no-change] a failing try_lock changes nothing");
        }
        Err(TryLockError::Poisoned(_)) => assert!(false, "[C05.1-not-poisoned] a fresh mutex is not poisoned"),
    }
    kani::cover!(c0 == 0, "free lock");
    kani::cover!(c0 == 2, "held lock with a waiter");
}

//@ obligation: C05.2a
//@ kind: K3
//@ complete: yes
//@ functions: Mutex::lock, Mutex::unpark_one
//@ statement: lock() on a held mutex (thread context): the blocker is registered in the wait queue BEFORE the count is incremented; if the increment
//@ statement: found the lock free (the holder released in between) exactly one waiter is popped and unparked before parking, otherwise none;
//@ statement: a guard is returned only after park returned Ok (the hand-off token was delivered); the count keeps this caller's unit
#[kani::proof]
#[kani::stub(<crate::park::Park as std::ops::Drop>::drop, sup::park_drop_noop)]
#[kani::stub(crate::scheduler::get_scheduler, sup::get_scheduler_stub)]
#[kani::stub(may_queue::mpsc::Queue::push, q_push_stub)]
#[kani::stub(may_queue::mpsc::Queue::pop, q_pop_stub)]
#[kani::stub(crate::sync::blocking::SyncBlocker::current, env::current_env)]
#[kani::stub(crate::sync::blocking::SyncBlocker::park, env::park_env)]
#[kani::stub(crate::sync::blocking::SyncBlocker::is_unparked, env::is_unparked_env)]
#[kani::stub(crate::sync::blocking::SyncBlocker::set_release, env::set_release_env)]
#[kani::stub(crate::sync::blocking::SyncBlocker::take_release, env::take_release_env)]
#[kani::stub(crate::sync::blocking::Blocker::unpark, blocker_unpark_count)]
#[kani::unwind(4)]
fn c05_2a_lock_registers_before_counting() {
    gq_reset();
    unsafe {
        UNLOCKS = 0;
        BLOCKER_UNPARKS = 0;
    }
    // a waker exists iff somebody eventually hands the lock over; thread context: no cancel
    env::env_reset(kani::any(), false, false, 1);
    let m: &'static Mutex<u8> = Box::leak(Box::new(Mutex::new(0u8)));
    let c0: usize = kani::any();
    kani::assume(c0 >= 1 && c0 <= 2);
    m.cnt.store(c0, Ordering::SeqCst);
    unsafe {
        MUTEX_CNT = &m.cnt;
        HOLDER_RELEASES_AT_PUSH = c0 == 1 && kani::any();
    }
    let released = unsafe { HOLDER_RELEASES_AT_PUSH };
    let r = m.lock();
    // reaching this point means lock() returned
    assert!(unsafe { Q_PUSHES } == 1, "[C05.2-registered] the waiter registers exactly once");
    let at_push = unsafe { CNT_AT_PUSH };
    assert!(at_push == if released { 0 } else { c0 }, "[C05.2-register-before-count] the count must not be incremented before the blocker is in the wait queue");
    if released {
        assert!(unsafe { Q_POPS } == 1 && unsafe { BLOCKER_UNPARKS } == 1, "[C05.2-self-service] finding the lock free, the caller pops and unparks exactly one waiter");
    } else {
        assert!(unsafe { Q_POPS } == 0 && unsafe { BLOCKER_UNPARKS } == 0, "[C05.2-no-steal] while the lock is held the caller wakes nobody");
    }
    assert!(unsafe { env::PARK_LAST } == 0 && unsafe { env::PARKS } == 1, "[C05.2-guard-after-token] a guard is returned only after park returned Ok");
    assert!(r.is_ok(), "[C05.2-not-poisoned] not poisoned");
    assert!(m.cnt.load(Ordering::SeqCst) == at_push + 1, "[C05.2-count] the caller holds exactly one unit of the count");
    kani::cover!(released, "holder released between try_lock and registration");
    kani::cover!(!released, "lock still held");
    std::mem::forget(r);
}

//@ obligation: C05.3a
//@ kind: K3
//@ complete: yes
//@ functions: Mutex::unlock, Mutex::unpark_one
//@ statement: unlock() for every count 1..=3 with count-1 registered waiters whose first may have abandoned the wait (release flag set):
//@ statement: count > 1 => exactly one waiter is popped and unparked, and iff that waiter had abandoned, the lock is released once more on its behalf
//@ statement: (next waiter popped and unparked); count == 1 => nobody is popped; afterwards count = live holder + waiters still queued
#[kani::proof]
#[kani::stub(<crate::park::Park as std::ops::Drop>::drop, sup::park_drop_noop)]
#[kani::stub(crate::scheduler::get_scheduler, sup::get_scheduler_stub)]
#[kani::stub(may_queue::mpsc::Queue::push, q_push_stub)]
#[kani::stub(may_queue::mpsc::Queue::pop, q_pop_stub)]
#[kani::stub(crate::sync::blocking::Blocker::unpark, blocker_unpark_count)]
#[kani::unwind(4)]
fn c05_3a_unlock_hands_over_once() {
    gq_reset();
    unsafe {
        BLOCKER_UNPARKS = 0;
        MUTEX_CNT = std::ptr::null();
    }
    let m: &'static Mutex<u8> = Box::leak(Box::new(Mutex::new(0u8)));
    let c0: usize = kani::any();
    kani::assume(c0 >= 1 && c0 <= 3);
    m.cnt.store(c0, Ordering::SeqCst);
    let w1 = SyncBlocker::current();
    let w2 = SyncBlocker::current();
    let r1: bool = kani::any();
    if r1 {
        w1.set_release();
    }
    if c0 >= 2 {
        m.to_wake.push(w1.clone());
    }
    if c0 >= 3 {
        m.to_wake.push(w2.clone());
    }
    m.unlock();
    let cnt = m.cnt.load(Ordering::SeqCst);
    let pops = unsafe { Q_POPS };
    let unparks = unsafe { BLOCKER_UNPARKS };
    if c0 == 1 {
        assert!(pops == 0 && unparks == 0 && cnt == 0, "[C05.3-free] releasing without waiters frees the lock and wakes nobody");
    } else if !r1 {
        assert!(pops == 1 && unparks == 1 && w1.is_unparked(), "[C05.3-handoff] exactly one waiter is popped and unparked");
        assert!(cnt == c0 - 1, "[C05.3-handoff-count] the woken waiter keeps its unit of the count");
        assert!(!w2.is_unparked(), "[C05.3-one-only] no second waiter is woken");
    } else {
        // the first waiter had abandoned: its hand-off is passed on
        assert!(w1.is_unparked() && !w1.take_release(), "[C05.3-release-consumed] the abandoned waiter is unparked and its release flag consumed");
        if c0 == 2 {
            assert!(pops == 1 && unparks == 1 && cnt == 0, "[C05.3-forward-free] with no further waiter the lock becomes free");
        } else {
            assert!(pops == 2 && unparks == 2 && w2.is_unparked() && cnt == 1, "[C05.3-forward-next] the hand-off is forwarded to the next waiter exactly once");
        }
    }
    kani::cover!(c0 == 3 && r1, "forwarding to the next waiter");
}

//@ obligation: C05.4a
//@ property: C05 C09
//@ kind: K3
//@ complete: yes
//@ functions: Mutex::lock
//@ statement: lock() in a coroutine whose wait is cancelled (cancellation enabled), against every interleaving of one concurrent hand-off
//@ statement: (unpark_one) with the abort sequence: the hand-off is passed on exactly once — by the waiter (one unlock before the cancel panic) or by
//@ statement: the waker (it saw the release flag) — and never when no hand-off happened; the cancel panic is raised only after that
#[kani::proof]
#[kani::stub(<crate::park::Park as std::ops::Drop>::drop, sup::park_drop_noop)]
#[kani::stub(crate::scheduler::get_scheduler, sup::get_scheduler_stub)]
#[kani::stub(may_queue::mpsc::Queue::push, q_push_stub)]
#[kani::stub(may_queue::mpsc::Queue::pop, q_pop_stub)]
#[kani::stub(crate::sync::blocking::SyncBlocker::current, env::current_env)]
#[kani::stub(crate::sync::blocking::SyncBlocker::park, env::park_env)]
#[kani::stub(crate::sync::blocking::SyncBlocker::is_unparked, env::is_unparked_env)]
#[kani::stub(crate::sync::blocking::SyncBlocker::set_release, env::set_release_env)]
#[kani::stub(crate::sync::blocking::SyncBlocker::take_release, env::take_release_env)]
#[kani::stub(crate::sync::mutex::Mutex::unlock, unlock_count_stub)]
#[kani::stub(crate::cancel::trigger_cancel_panic, sup::cancel_panic_stub)]
#[kani::unwind(5)]
fn c05_4a_cancelled_lock_forwards_exactly_once() {
    gq_reset();
    unsafe {
        UNLOCKS = 0;
        MUTEX_CNT = std::ptr::null();
        sup::ON_CANCEL_PANIC = Some(c05_4a_at_panic);
    }
    sup::trace_reset();
    let _co = sup::enter_coroutine();
    env::env_reset(kani::any(), true, false, 2);
    let m: &'static Mutex<u8> = Box::leak(Box::new(Mutex::new(0u8)));
    m.cnt.store(1, Ordering::SeqCst);
    let r = m.lock();
    // lock() returned a guard: the wait was not cancelled (park Ok)
    assert!(unsafe { env::PARK_LAST } == 0, "[C05.4-guard-after-token] a guard is returned only after park returned Ok");
    assert!(env::token_delivered(), "[C05.4-guard-needs-handoff] a guard without a hand-off");
    env::env_finish();
    assert!(unsafe { UNLOCKS } == 0 && !unsafe { env::WAKER_FORWARDED }, "[C05.4-kept] a waiter that takes the lock must not also pass it on");
    std::mem::forget(r);
}

fn c05_4a_at_panic() {
    // the waiter is about to unwind with the cancel panic; let the waker finish, then do the accounting
    kani::cover!(true, "cancel panic reached");
    env::env_finish();
    let by_waiter = unsafe { UNLOCKS };
    let by_waker = if unsafe { env::WAKER_FORWARDED } { 1 } else { 0 };
    if unsafe { env::WAKER_EXISTS } {
        assert!(by_waiter + by_waker == 1, "[C05.4-forward-once] a hand-off that raced with the cancellation must be passed on exactly once");
    } else {
        assert!(by_waiter + by_waker == 0, "[C05.4-no-phantom] without a hand-off nothing may be released");
    }
    kani::cover!(by_waiter == 1, "forwarded by the waiter");
    kani::cover!(by_waker == 1, "forwarded by the waker");
}

//@ obligation: C05.4b
//@ property: C05 C09 C11
//@ kind: K3
//@ complete: yes
//@ functions: Mutex::lock
//@ statement: lock() in a coroutine that is cancelled while cancellation is DISABLED (as in Condvar's re-lock): the waiter keeps waiting and
//@ statement: returns a guard only after the hand-off, and then the hand-off is not also passed on to somebody else (no double ownership)
#[kani::proof]
#[kani::stub(<crate::park::Park as std::ops::Drop>::drop, sup::park_drop_noop)]
#[kani::stub(crate::scheduler::get_scheduler, sup::get_scheduler_stub)]
#[kani::stub(may_queue::mpsc::Queue::push, q_push_stub)]
#[kani::stub(may_queue::mpsc::Queue::pop, q_pop_stub)]
#[kani::stub(crate::sync::blocking::SyncBlocker::current, env::current_env)]
#[kani::stub(crate::sync::blocking::SyncBlocker::park, env::park_env)]
#[kani::stub(crate::sync::blocking::SyncBlocker::is_unparked, env::is_unparked_env)]
#[kani::stub(crate::sync::blocking::SyncBlocker::set_release, env::set_release_env)]
#[kani::stub(crate::sync::blocking::SyncBlocker::take_release, env::take_release_env)]
#[kani::stub(crate::sync::mutex::Mutex::unlock, unlock_count_stub)]
#[kani::stub(crate::cancel::trigger_cancel_panic, sup::cancel_panic_stub)]
#[kani::unwind(6)]
fn c05_4b_cancel_disabled_lock_keeps_the_handoff() {
    gq_reset();
    unsafe {
        UNLOCKS = 0;
        MUTEX_CNT = std::ptr::null();
        sup::ON_CANCEL_PANIC = Some(c05_4b_at_panic);
    }
    let co = sup::enter_coroutine();
    sup::cancel_of(co).disable_cancel();
    env::env_reset(true, true, false, 3);
    let m: &'static Mutex<u8> = Box::leak(Box::new(Mutex::new(0u8)));
    m.cnt.store(1, Ordering::SeqCst);
    let r = m.lock();
    assert!(env::token_delivered(), "[C05.4b-guard-needs-handoff] a guard without a hand-off");
    env::env_finish();
    kani::cover!(unsafe { env::PARKS } >= 2, "the wait continued after an ignored cancellation");
    assert!(unsafe { UNLOCKS } == 0, "[C05.4b-kept-by-waiter] a waiter that takes the lock must not also release it");
    assert!(!unsafe { env::WAKER_FORWARDED }, "[C05.4b-no-double-owner] the hand-off was both accepted by the waiter and passed on by the waker: two owners");
    std::mem::forget(r);
}

fn c05_4b_at_panic() {
    assert!(false, "[C05.4b-no-panic] with cancellation disabled lock() must not raise the cancel panic");
}

//@ obligation: C05.canary
//@ kind: K3
//@ canary: yes
//@ functions: Mutex::lock
//@ statement: canary — claims a cancelled waiter never has to release anything; must FAIL
#[kani::proof]
#[kani::stub(<crate::park::Park as std::ops::Drop>::drop, sup::park_drop_noop)]
#[kani::stub(crate::scheduler::get_scheduler, sup::get_scheduler_stub)]
#[kani::stub(may_queue::mpsc::Queue::push, q_push_stub)]
#[kani::stub(may_queue::mpsc::Queue::pop, q_pop_stub)]
#[kani::stub(crate::sync::blocking::SyncBlocker::current, env::current_env)]
#[kani::stub(crate::sync::blocking::SyncBlocker::park, env::park_env)]
#[kani::stub(crate::sync::blocking::SyncBlocker::is_unparked, env::is_unparked_env)]
#[kani::stub(crate::sync::blocking::SyncBlocker::set_release, env::set_release_env)]
#[kani::stub(crate::sync::blocking::SyncBlocker::take_release, env::take_release_env)]
#[kani::stub(crate::sync::mutex::Mutex::unlock, unlock_count_stub)]
#[kani::stub(crate::cancel::trigger_cancel_panic, sup::cancel_panic_stub)]
#[kani::unwind(5)]
fn c05_canary() {
    gq_reset();
    unsafe {
        UNLOCKS = 0;
        MUTEX_CNT = std::ptr::null();
        sup::ON_CANCEL_PANIC = Some(c05_canary_at_panic);
    }
    let _co = sup::enter_coroutine();
    env::env_reset(true, true, false, 2);
    let m: &'static Mutex<u8> = Box::leak(Box::new(Mutex::new(0u8)));
    m.cnt.store(1, Ordering::SeqCst);
    let r = m.lock();
    std::mem::forget(r);
}

fn c05_canary_at_panic() {
    assert!(unsafe { UNLOCKS } == 0, "[C05.canary] canary (expected to fail)");
}
