//! C10 (SyncFlag part) — a fired SyncFlag stays fired and releases every waiter. Child module of `sync/sync_flag.rs`.
//@ file-needs: blk
//@ file-inject: src/sync/sync_flag.rs
//@ file-property: C10
use super::*;
use crate::coroutine_impl::vk_support as sup;
use crate::sync::blocking::vk_blk as env;

static mut FIRES: usize = 0;
fn fire_count_stub(_s: &SyncFlag) {
    unsafe { FIRES += 1 };
}

//@ obligation: C10.5a
//@ kind: K2
//@ complete: yes
//@ functions: SyncFlag::fire, SyncFlag::is_fired, SyncFlag::wait_timeout_impl, SyncFlag::wakeup_all
//@ statement: for every counter value (any number of earlier un-fired waits): fire() makes is_fired() true, pops and unparks every registered waiter;
//@ statement: afterwards every wait returns true without registering or parking and leaves the flag fired; fire is idempotent
#[kani::proof]
#[kani::stub(<crate::park::Park as std::ops::Drop>::drop, sup::park_drop_noop)]
#[kani::stub(crate::scheduler::get_scheduler, sup::get_scheduler_stub)]
#[kani::stub(crossbeam::queue::SegQueue::push, sup::seg_push_stub)]
#[kani::stub(crossbeam::queue::SegQueue::pop, sup::seg_pop_stub)]
#[kani::stub(crate::sync::blocking::SyncBlocker::park, env::park_env)]
#[kani::stub(crate::sync::blocking::Blocker::unpark, sup::blocker_unpark_count)]
#[kani::unwind(4)]
fn c10_5a_fire_is_a_latch() {
    sup::gq_reset();
    env::env_reset(false, false, false, 0);
    unsafe { sup::BLOCKER_UNPARKS = 0 };
    let f: &'static SyncFlag = Box::leak(Box::new(SyncFlag::new()));
    let c0: isize = kani::any();
    kani::assume(c0 <= 0);
    f.cnt.store(c0, Ordering::SeqCst);
    assert!(!f.is_fired(), "[C10.5-unfired] a flag that was never fired reads un-fired");
    // two registered waiters (a concrete number keeps the queue pointers concrete for CBMC)
    let n: usize = 2;
    let w1 = SyncBlocker::current();
    let w2 = SyncBlocker::current();
    f.to_wake.push(w1.clone());
    f.to_wake.push(w2.clone());
    f.fire();
    assert!(f.is_fired(), "[C10.5-fired] fire makes the flag read fired");
    assert!(unsafe { sup::Q_POPS } == n && unsafe { sup::BLOCKER_UNPARKS } == n, "[C10.5-wake-all] fire pops and unparks every registered waiter");
    assert!((n < 1 || w1.is_unparked()) && (n < 2 || w2.is_unparked()), "[C10.5-wake-all] fire pops and unparks every registered waiter");
    let pushes = unsafe { sup::Q_PUSHES };
    assert!(f.wait_timeout_impl(None), "[C10.5-wait-true] a wait on a fired flag returns true");
    assert!(f.wait_timeout_impl(Some(Duration::from_nanos(1))), "[C10.5-wait-true] a timed wait on a fired flag returns true");
    assert!(unsafe { env::PARKS } == 0 && unsafe { sup::Q_PUSHES } == pushes, "[C10.5-wait-no-block] a wait on a fired flag neither registers nor parks");
    f.fire();
    assert!(f.is_fired(), "[C10.5-idempotent] firing again keeps the flag fired");
    kani::cover!(c0 < 0, "earlier un-fired waits");
}

//@ obligation: C10.5b
//@ kind: K2
//@ complete: yes
//@ functions: SyncFlag::wait_timeout_impl, SyncFlag::is_fired
//@ statement: a fired flag never reads un-fired again: for every number k < 2^62 of waiters that passed the is_fired check just before fire() and
//@ statement: decrement afterwards, the counter stays positive; such a late waiter finds the flag fired, wakes everybody queued and returns true after its own unpark
#[kani::proof]
#[kani::stub(<crate::park::Park as std::ops::Drop>::drop, sup::park_drop_noop)]
#[kani::stub(crate::scheduler::get_scheduler, sup::get_scheduler_stub)]
#[kani::stub(crossbeam::queue::SegQueue::push, sup::seg_push_stub)]
#[kani::stub(crossbeam::queue::SegQueue::pop, sup::seg_pop_stub)]
#[kani::stub(crate::sync::blocking::SyncBlocker::current, env::current_env)]
#[kani::stub(crate::sync::blocking::SyncBlocker::park, park_ok_if_unparked)]
#[kani::stub(crate::sync::blocking::Blocker::unpark, sup::blocker_unpark_count)]
#[kani::unwind(5)]
fn c10_5b_late_waiter_after_fire() {
    sup::gq_reset();
    env::env_reset(false, false, false, 1);
    unsafe {
        sup::BLOCKER_UNPARKS = 0;
        sup::ON_Q_PUSH = Some(fire_slips_in);
        FLAG = std::ptr::null();
    }
    let f: &'static SyncFlag = Box::leak(Box::new(SyncFlag::new()));
    let k: isize = kani::any();
    kani::assume(k >= 0 && k < (1 << 62));
    unsafe {
        FLAG = f;
        LATE_K = k;
    }
    // not fired yet: the waiter passes the is_fired check, registers, then fire() runs, then it decrements
    let r = f.wait_timeout_impl(None);
    assert!(r, "[C10.5b-late-true] a waiter that raced with fire returns true");
    assert!(unsafe { sup::Q_POPS } == 1 && unsafe { sup::BLOCKER_UNPARKS } == 1, "[C10.5b-self-wake] the late waiter finds the flag fired and wakes the queue (itself)");
    assert!(f.is_fired(), "[C10.5b-stays-fired] the flag still reads fired after late decrements");
}

static mut FLAG: *const SyncFlag = std::ptr::null();
static mut LATE_K: isize = 0;
fn fire_slips_in() {
    unsafe {
        if !FLAG.is_null() {
            // fire() ran to completion before this waiter registered (so it did not see it in the queue),
            // and k other late waiters have already decremented
            (*FLAG).cnt.store(isize::MAX - LATE_K, Ordering::SeqCst);
        }
    }
}

/// park contract specialised: returns Ok iff this blocker has been unparked (no other result is possible here)
fn park_ok_if_unparked(b: &SyncBlocker, _t: Option<Duration>) -> Result<(), ParkError> {
    unsafe { env::PARKS += 1 };
    kani::assume(b.is_unparked());
    Ok(())
}

//@ obligation: C10.5c
//@ property: C10 C09
//@ kind: K3
//@ complete: yes
//@ functions: SyncFlag::wait_timeout_impl
//@ statement: a wait on an un-fired flag that times out or is cancelled, against every interleaving of one concurrent wakeup (fire) with the abort
//@ statement: sequence: it returns false on time-out, panics on cancel, and a wake-up that raced with the abort makes somebody call fire() again
//@ statement: (waiter or waker), so the latch is never lost; Ok returns true
#[kani::proof]
#[kani::stub(<crate::park::Park as std::ops::Drop>::drop, sup::park_drop_noop)]
#[kani::stub(crate::scheduler::get_scheduler, sup::get_scheduler_stub)]
#[kani::stub(crossbeam::queue::SegQueue::push, sup::seg_push_stub)]
#[kani::stub(crossbeam::queue::SegQueue::pop, sup::seg_pop_stub)]
#[kani::stub(crate::sync::blocking::SyncBlocker::current, env::current_env)]
#[kani::stub(crate::sync::blocking::SyncBlocker::park, env::park_env)]
#[kani::stub(crate::sync::blocking::SyncBlocker::is_unparked, env::is_unparked_env)]
#[kani::stub(crate::sync::blocking::SyncBlocker::set_release, env::set_release_env)]
#[kani::stub(crate::sync::blocking::SyncBlocker::take_release, env::take_release_env)]
#[kani::stub(crate::sync::sync_flag::SyncFlag::fire, fire_count_stub)]
#[kani::stub(crate::cancel::trigger_cancel_panic, sup::cancel_panic_stub)]
#[kani::unwind(5)]
fn c10_5c_aborted_wait_keeps_the_latch() {
    sup::gq_reset();
    unsafe {
        FIRES = 0;
        sup::ON_CANCEL_PANIC = Some(c10_5c_settle);
    }
    let _co = sup::enter_coroutine();
    env::env_reset(kani::any(), true, true, 1);
    let f: &'static SyncFlag = Box::leak(Box::new(SyncFlag::new()));
    let r = f.wait_timeout_impl(Some(Duration::from_millis(5)));
    match unsafe { env::PARK_LAST } {
        0 => assert!(r, "[C10.5c-ok-true] a woken wait returns true"),
        1 => {
            assert!(!r, "[C10.5c-timeout-false] a timed-out wait returns false");
            c10_5c_settle();
        }
        _ => assert!(false, "[C10.5c-cancel-panics] a cancelled wait must raise the cancel panic"),
    }
}

fn c10_5c_settle() {
    env::env_finish();
    let by_waiter = unsafe { FIRES };
    let by_waker = if unsafe { env::WAKER_FORWARDED } { 1 } else { 0 };
    if unsafe { env::WAKER_EXISTS } {
        assert!(by_waiter + by_waker == 1, "[C10.5c-refire-once] a wake-up that raced with the abort is passed on (fire) exactly once");
    } else {
        assert!(by_waiter + by_waker == 0, "[C10.5c-no-phantom-fire] an aborted wait must not fire a flag nobody fired");
    }
}
