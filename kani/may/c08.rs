//! C08 — timed waits never fire early, never hang, for every duration.
//! C18 shares the AtomicDuration obligations (`get` is what the I/O time-outs read).
use crate::sync::atomic_dur::AtomicDuration;
use std::time::Duration;

const TICK: Duration = Duration::from_millis(1);

/// every duration whose millisecond count fits the cell (the cell saturates beyond ~292 million years)
fn any_duration() -> Duration {
    let secs: u64 = kani::any();
    let nanos: u32 = kani::any();
    kani::assume(nanos < 1_000_000_000);
    kani::assume(secs < (1u64 << 53));
    Duration::new(secs, nanos)
}

/// all 10^9 sub-second values on top of six representative second counts. The full second range is
/// covered by the Verus kernel C08.1v; SAT needs minutes for the 64-bit mul/div round trip.
fn sampled_duration() -> Duration {
    let nanos: u32 = kani::any();
    kani::assume(nanos < 1_000_000_000);
    let k: u8 = kani::any();
    let secs: u64 = match k {
        0 => 0,
        1 => 1,
        2 => 59,
        3 => 86_399,
        4 => 1u64 << 32,
        _ => (1u64 << 53) + 7,
    };
    Duration::new(secs, nanos)
}

//@ obligation: C08.1a
//@ property: C08 C18
//@ kind: K1
//@ complete: yes
//@ playback: yes
//@ functions: AtomicDuration::store, AtomicDuration::take
//@ statement: for every duration d (incl. 0 and sub-ms): store(Some(d)); take() is Some — the time-out is never lost,
//@ statement: which would park the caller forever — and the second take() is None
#[kani::proof]
fn c08_1a_store_take_never_lost() {
    let d = any_duration();
    let a = AtomicDuration::new(None);
    a.store(Some(d));
    let r = a.take();
    kani::cover!(d < TICK, "sub-millisecond duration");
    kani::cover!(d == Duration::ZERO, "zero duration");
    assert!(r.is_some(), "[C08.1a-never-lost] store(Some(d)); take() returned None: the timed wait would block forever");
    assert!(a.take().is_none(), "[C08.1a-take-clears] take() must clear the cell");
}

//@ obligation: C08.1d
//@ property: C08 C18
//@ kind: K1
//@ complete: no
//@ bound: seconds in {0, 1, 59, 86399, 2^32, 2^53+7} x every sub-second nanosecond value (full second range: Verus C08.1v)
//@ playback: yes
//@ functions: AtomicDuration::store, AtomicDuration::take
//@ statement: store(Some(d)); take() = Some(d') with d <= d' < d + 1ms (d = 0 gives exactly 1ms): never early, within one tick
#[kani::proof]
fn c08_1d_store_take_never_early() {
    let d = sampled_duration();
    let a = AtomicDuration::new(None);
    a.store(Some(d));
    let r = a.take();
    kani::cover!(d.subsec_nanos() % 1_000_000 != 0 && d > TICK, "non-integral millisecond duration");
    assert!(r.is_some(), "[C08.1d-never-lost] time-out lost");
    let r = r.unwrap();
    assert!(r >= d, "[C08.1d-never-early] store(Some(d)); take() returned a shorter duration: the timed wait fires early");
    assert!(
        r - d < TICK || (d == Duration::ZERO && r == TICK),
        "[C08.1d-within-tick] the stored time-out exceeds d by a full tick or more"
    );
}

//@ obligation: C08.1b
//@ property: C08 C18
//@ kind: K1
//@ complete: no
//@ bound: same sampled durations as C08.1d
//@ playback: yes
//@ functions: AtomicDuration::new, AtomicDuration::store, AtomicDuration::take, AtomicDuration::get
//@ statement: new(x) behaves as store(x); get() returns what take() returns and does not clear the cell
#[kani::proof]
fn c08_1b_new_get_agree_with_store_take() {
    let d = sampled_duration();
    let a = AtomicDuration::new(Some(d));
    let b = AtomicDuration::new(None);
    b.store(Some(d));
    let g1 = b.get();
    let g2 = b.get();
    let tb = b.take();
    assert!(a.take() == tb, "[C08.1b-new-eq-store] new(Some(d)) and store(Some(d)) disagree");
    assert!(g1 == g2 && g1 == tb, "[C08.1b-get-eq-take] get() must equal take() and must not clear");
}

//@ obligation: C08.1c
//@ property: C08 C18
//@ kind: K1
//@ complete: yes
//@ playback: yes
//@ functions: AtomicDuration::new, AtomicDuration::store, AtomicDuration::take, AtomicDuration::get
//@ statement: None stays None: new(None), store(None) after any Some, get() and take() all give None; get() of Some is Some
#[kani::proof]
fn c08_1c_none_is_none() {
    let d = any_duration();
    let c = AtomicDuration::new(Some(d));
    assert!(c.get().is_some(), "[C08.1c-get-some] get() lost the time-out");
    c.store(None);
    assert!(c.get().is_none(), "[C08.1c-get-none] get() after store(None) must be None");
    assert!(c.take().is_none(), "[C08.1c-none] store(None); take() must be None");
    let e = AtomicDuration::new(None);
    assert!(e.get().is_none() && e.take().is_none(), "[C08.1c-new-none] new(None) must read None");
}

//@ obligation: C08.canary
//@ property: C08
//@ kind: K1
//@ canary: yes
//@ functions: AtomicDuration::store
//@ statement: canary — asserts that no duration is sub-millisecond behind the same preconditions; must FAIL
#[kani::proof]
fn c08_canary() {
    let d = any_duration();
    let a = AtomicDuration::new(None);
    a.store(Some(d));
    assert!(d >= TICK, "[C08.canary] canary (expected to fail)");
}
