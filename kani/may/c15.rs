//! C01.3 / C13.1 / C15.2 — the life cycle of one spawned coroutine on the generator shim: `Builder::spawn_impl`
//! attaches a fresh CoroutineLocal; the spawn closure stores the result BEFORE it triggers the join; `run_coroutine`
//! hands a yielded coroutine to exactly one subscriber, and on return/panic delivers the outcome, triggers the join
//! and frees the CoroutineLocal exactly once before the stack goes back to the pool.
//! Child module of `coroutine_impl.rs`.
//!
//! TOOL LIMIT: all four harnesses exceed 7 minutes of symbolic execution (`resume` calls the type-erased closure
//! through a function pointer, for which CBMC considers every coroutine body in the crate, including the I/O proxy
//! coroutine). They are kept with `tier: experimental` and are not run by the registered commands.
//@ file-inject: src/coroutine_impl.rs
//@ file-needs: cz pk jn
//@ file-property: C15 C01 C13
use super::*;
use crate::coroutine_impl::vk_support as sup;
use crate::pool::CoroutinePool;
use crate::sync::Blocker;

static mut POOL_GETS: usize = 0;
static mut POOL_PUTS: usize = 0;
static mut PUT_ID: usize = 0;
static mut BODY_RUNS: usize = 0;
static mut PACKET_SET_AT_TRIGGER: bool = false;
static mut UNPARKS: usize = 0;
static mut SUBSCRIBED: usize = 0;
static mut SUBSCRIBED_ID: usize = 0;

fn pool_get_stub(_p: &CoroutinePool) -> CoroutineImpl {
    unsafe { POOL_GETS += 1 };
    // a recycled stack: the previous occupant left a passed-in result behind
    let mut co: CoroutineImpl = generator::shim_new_empty(config().get_stack_size());
    co.set_para(std::io::Error::from(std::io::ErrorKind::TimedOut));
    co
}

fn pool_put_stub(_p: &CoroutinePool, co: CoroutineImpl) {
    unsafe {
        POOL_PUTS += 1;
        PUT_ID = co.shim_id();
    }
    std::mem::forget(co);
}

fn yield_noop<T: std::any::Any>(v: T) {
    std::mem::forget(v);
}

fn unpark_count(_b: &Blocker) {
    unsafe { UNPARKS += 1 };
}

struct Recorder;
impl EventSource for Recorder {
    fn subscribe(&mut self, co: CoroutineImpl) {
        unsafe {
            SUBSCRIBED += 1;
            SUBSCRIBED_ID = co.shim_id();
        }
        std::mem::forget(co);
    }
}
static mut RECORDER: Recorder = Recorder;

fn reset() {
    unsafe {
        POOL_GETS = 0;
        POOL_PUTS = 0;
        BODY_RUNS = 0;
        UNPARKS = 0;
        SUBSCRIBED = 0;
        generator::ghost::reset();
    }
}

//@ obligation: C15.2a
//@ kind: K2
//@ complete: yes
//@ tier: experimental
//@ functions: Builder::spawn_impl, Builder::new, Coroutine::new, CoroutineLocal::new, make_join_handle
//@ statement: a spawn on a pooled stack builds a coroutine whose local data is a FRESH CoroutineLocal: its handle has no park token, no pending
//@ statement: cancel, its join is not finished, and the handle returned to the spawner refers to the same coroutine; the closure has not run yet
#[kani::proof]
#[kani::stub(crate::scheduler::get_scheduler, sup::get_scheduler_stub)]
#[kani::stub(<crate::park::Park as std::ops::Drop>::drop, sup::park_drop_noop)]
#[kani::stub(crate::pool::CoroutinePool::get, pool_get_stub)]
#[kani::stub(crate::pool::CoroutinePool::put, pool_put_stub)]
#[kani::stub(generator::co_yield_with, yield_noop)]
#[kani::unwind(3)]
fn c15_2a_spawn_attaches_a_fresh_local() {
    reset();
    let (co, h) = Builder::new().spawn_impl(|| {
        unsafe { BODY_RUNS += 1 };
        7u32
    }).unwrap();
    assert!(unsafe { POOL_GETS } == 1 && unsafe { BODY_RUNS } == 0, "[C15.2-not-run-yet] spawn takes one pooled stack and does not run the closure");
    let local = unsafe { &*get_co_local(&co) };
    let handle = local.get_co();
    assert!(!handle.inner.park.vk_token() , "[C15.2-no-stale-token] a fresh coroutine starts without a park token");
    assert!(handle.inner.cancel.vk_state() == 0, "[C15.2-no-stale-cancel] a fresh coroutine starts with no pending cancel and cancel enabled");
    assert!(!h.is_done(), "[C15.2-join-fresh] the join of a fresh coroutine is not finished");
    assert!(Arc::ptr_eq(&handle.inner, &h.coroutine().inner), "[C15.2-same-handle] the JoinHandle refers to the coroutine that was built");
    assert!(co.shim_has_code(), "[C15.2-code-installed] the closure is installed in the pooled coroutine");
    std::mem::forget(co);
    std::mem::forget(h);
}

fn trigger_observer(_b: &Blocker) {
    unsafe { UNPARKS += 1 };
}

//@ obligation: C01.3a
//@ tier: experimental
//@ kind: K3
//@ complete: yes
//@ functions: Builder::spawn_impl (closure), run_coroutine, Done::drop_coroutine, Join::trigger
//@ statement: running a spawned coroutine to completion (closure returns): the closure runs exactly once; its value is in the result slot and the
//@ statement: join is finished when run_coroutine returns; join() then yields exactly that value; the CoroutineLocal is freed and the stack is put
//@ statement: back into the pool exactly once
#[kani::proof]
#[kani::stub(crate::scheduler::get_scheduler, sup::get_scheduler_stub)]
#[kani::stub(<crate::park::Park as std::ops::Drop>::drop, sup::park_drop_noop)]
#[kani::stub(crate::pool::CoroutinePool::get, pool_get_stub)]
#[kani::stub(crate::pool::CoroutinePool::put, pool_put_stub)]
#[kani::stub(generator::co_yield_with, yield_noop)]
#[kani::stub(crate::sync::blocking::Blocker::unpark, unpark_count)]
#[kani::unwind(3)]
fn c01_3a_completed_coroutine_delivers_its_value() {
    reset();
    let v: u32 = kani::any();
    let (co, h) = Builder::new().spawn_impl(move || {
        unsafe { BODY_RUNS += 1 };
        v
    }).unwrap();
    let id = co.shim_id();
    run_coroutine(co);
    assert!(unsafe { BODY_RUNS } == 1, "[C01.3-runs-once] the closure of a spawned coroutine runs exactly once");
    assert!(h.is_done(), "[C01.3-triggered] the join is triggered when the closure has returned");
    assert!(unsafe { POOL_PUTS } == 1 && unsafe { PUT_ID } == id, "[C15.2-recycled-once] the finished coroutine is handed back to the pool exactly once");
    let r = h.join();
    assert!(r.ok() == Some(v), "[C01.3-value] join returns exactly the closure's value");
}

//@ obligation: C13.1a
//@ tier: experimental
//@ kind: K3
//@ complete: yes
//@ functions: run_coroutine, Done::drop_coroutine, Join::set_panic_data, Join::trigger
//@ statement: running a spawned coroutine whose body panics (resume reports the caught panic): the payload is stored for the JoinHandle BEFORE the
//@ statement: join is triggered, the CoroutineLocal is freed and the stack recycled exactly once, and join() yields exactly that payload
#[kani::proof]
#[kani::stub(crate::scheduler::get_scheduler, sup::get_scheduler_stub)]
#[kani::stub(<crate::park::Park as std::ops::Drop>::drop, sup::park_drop_noop)]
#[kani::stub(crate::pool::CoroutinePool::get, pool_get_stub)]
#[kani::stub(crate::pool::CoroutinePool::put, pool_put_stub)]
#[kani::stub(generator::co_yield_with, yield_noop)]
#[kani::stub(crate::sync::blocking::Blocker::unpark, unpark_count)]
#[kani::unwind(3)]
fn c13_1a_panicked_coroutine_delivers_its_payload() {
    reset();
    let (mut co, h) = Builder::new().spawn_impl(|| 1u32).unwrap();
    let pv: u16 = kani::any();
    let with_payload: bool = kani::any();
    co.script_panic(if with_payload { Some(Box::new(pv)) } else { None });
    let id = co.shim_id();
    run_coroutine(co);
    assert!(h.is_done(), "[C13.1-triggered] the join is triggered when the coroutine panicked");
    assert!(unsafe { POOL_PUTS } == 1 && unsafe { PUT_ID } == id, "[C13.1-recycled-once] the panicked coroutine's stack is recycled exactly once");
    match h.join() {
        Ok(_) => assert!(false, "[C13.1-no-value] a panicked coroutine has no value"),
        Err(e) => {
            if with_payload {
                assert!(e.downcast_ref::<u16>() == Some(&pv), "[C13.1-payload] the panic payload is delivered to the JoinHandle");
            } else {
                assert!(e.downcast_ref::<generator::Error>() == Some(&generator::Error::Cancel), "[C13.1-cancel] a coroutine that ended without value and payload reports Cancel");
            }
            std::mem::forget(e);
        }
    }
}

//@ obligation: C01.6a
//@ tier: experimental
//@ kind: K2
//@ complete: yes
//@ functions: run_coroutine, EventSubscriber::subscribe
//@ statement: a coroutine that yields is handed — after it has left its stack (resume returned) — to exactly one subscriber, exactly once, and is
//@ statement: neither recycled nor joined; it is the same coroutine object
#[kani::proof]
#[kani::stub(crate::scheduler::get_scheduler, sup::get_scheduler_stub)]
#[kani::stub(<crate::park::Park as std::ops::Drop>::drop, sup::park_drop_noop)]
#[kani::stub(crate::pool::CoroutinePool::get, pool_get_stub)]
#[kani::stub(crate::pool::CoroutinePool::put, pool_put_stub)]
#[kani::stub(generator::co_yield_with, yield_noop)]
#[kani::stub(crate::sync::blocking::Blocker::unpark, unpark_count)]
#[kani::unwind(3)]
fn c01_6a_yielded_coroutine_goes_to_one_subscriber() {
    reset();
    let (mut co, h) = Builder::new().spawn_impl(|| 1u32).unwrap();
    let id = co.shim_id();
    co.script_yield(EventSubscriber::new(&raw mut RECORDER as *mut dyn EventSource));
    run_coroutine(co);
    assert!(unsafe { SUBSCRIBED } == 1 && unsafe { SUBSCRIBED_ID } == id, "[C01.6-single-handoff] a yielded coroutine is handed to its event source exactly once");
    assert!(unsafe { generator::ghost::RESUMES } == 1, "[C01.6-one-resume] run_coroutine resumes the coroutine exactly once");
    assert!(!h.is_done() && unsafe { POOL_PUTS } == 0, "[C01.6-still-alive] a yielded coroutine is neither joined nor recycled");
    std::mem::forget(h);
}

static mut TRIGGERS: usize = 0;
static mut PAYLOAD_READY_AT_TRIGGER: bool = false;
static mut DROPPED_AT_TRIGGER: usize = 0;
static mut DROPS: usize = 0;
static mut JOIN_UNDER_TEST: *const Join = std::ptr::null();

fn payload_ready(j: &Join) -> bool {
    crate::join::vk_jn::panic_slot_is_some(j)
}

/// `Join::trigger` observed: at this moment the joiner may run, so everything it will read must be in place
fn trigger_observed(j: &Join) {
    unsafe {
        TRIGGERS += 1;
        PAYLOAD_READY_AT_TRIGGER = payload_ready(j);
        DROPPED_AT_TRIGGER = DROPS;
    }
    crate::join::vk_jn::real_trigger(j);
}

fn drop_coroutine_observed(co: CoroutineImpl) {
    unsafe { DROPS += 1 };
    std::mem::forget(co);
}

//@ obligation: C13.1b
//@ property: C13 C01
//@ kind: K3
//@ complete: yes
//@ functions: run_coroutine
//@ statement: the panic branch of run_coroutine (resume reports a caught panic, with or without payload): the payload is stored for the JoinHandle
//@ statement: BEFORE the join is triggered (a joiner woken by the trigger must find it), the join is triggered exactly once, and the coroutine is
//@ statement: handed to the recycler exactly once, after the trigger
#[kani::proof]
#[kani::stub(crate::scheduler::get_scheduler, sup::get_scheduler_stub)]
#[kani::stub(<crate::park::Park as std::ops::Drop>::drop, sup::park_drop_noop)]
#[kani::stub(crate::join::Join::trigger, trigger_observed)]
#[kani::stub(crate::coroutine_impl::Done::drop_coroutine, drop_coroutine_observed)]
#[kani::stub(crate::sync::blocking::Blocker::unpark, unpark_count)]
#[kani::unwind(3)]
fn c13_1b_panic_payload_is_published_before_the_trigger() {
    reset();
    unsafe {
        TRIGGERS = 0;
        DROPS = 0;
        PAYLOAD_READY_AT_TRIGGER = false;
    }
    let (mut co, _handle, join) = sup::mk_suspended_coroutine();
    let with_payload: bool = kani::any();
    let pv: u16 = kani::any();
    co.script_panic(if with_payload { Some(Box::new(pv)) } else { None });
    run_coroutine(co);
    assert!(unsafe { TRIGGERS } == 1, "[C13.1-trigger-once] the join of a panicked coroutine is triggered exactly once");
    if with_payload {
        assert!(unsafe { PAYLOAD_READY_AT_TRIGGER }, "[C13.1-payload-before-trigger] the join is triggered before the panic payload is stored: a joiner woken now reports Cancel and the payload is lost");
    }
    assert!(unsafe { DROPS } == 1 && unsafe { DROPPED_AT_TRIGGER } == 0, "[C13.1-recycle-after-trigger] the panicked coroutine is recycled exactly once, after the join was triggered");
    assert!(payload_ready(&join) == with_payload, "[C13.1-payload-kept] the payload stays available for the JoinHandle");
    std::mem::forget(join);
}
