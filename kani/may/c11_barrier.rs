//! C11 (Barrier part): exactly the n-th arrival of a generation is the leader. Child module of `sync/barrier.rs`.
//! Mutex and Condvar are replaced by their contracts (C05, C11.1-3).
//@ file-needs: c05 pz cz blk
//@ file-inject: src/sync/barrier.rs
//@ file-property: C11
use super::*;
use crate::coroutine_impl::vk_support as sup;
use crate::sync::mutex::vk_c05 as mx;
use crate::sync::MutexGuard;
use std::sync::LockResult;

static mut WAITED: usize = 0;
static mut NOTIFY_ALLS: usize = 0;
static mut PRED_AT_WAIT: bool = false;
static mut GEN_AT_NOTIFY: usize = 0;
static mut COUNT_AT_NOTIFY: usize = 0;
static mut BAR: *const Barrier = std::ptr::null();

/// contract of Condvar::wait_while used by Barrier: the caller holds the mutex before and after; here the
/// generation is advanced by "the leader" while the caller waits, and the predicate is evaluated around it
fn wait_while_contract<'a, T, F>(_c: &Condvar, mut guard: MutexGuard<'a, T>, mut condition: F) -> LockResult<MutexGuard<'a, T>>
where
    F: FnMut(&mut T) -> bool,
{
    unsafe {
        WAITED += 1;
        PRED_AT_WAIT = condition(&mut *guard);
    }
    Ok(guard)
}

fn notify_all_record(_c: &Condvar) {
    unsafe {
        NOTIFY_ALLS += 1;
        let b = &*BAR;
        let st = mx::peek_ref(&b.lock);
        GEN_AT_NOTIFY = st.generation_id;
        COUNT_AT_NOTIFY = st.count;
        assert!(mx::M_HELD, "[C11.4-notify-under-lock] the leader notifies while holding the barrier mutex");
    }
}

//@ obligation: C11.4a
//@ kind: K1
//@ complete: yes
//@ functions: Barrier::wait, Barrier::new
//@ statement: for every party count n >= 1, every arrival count c < n and every generation g (incl. usize::MAX): the arrival that makes c+1 == n is
//@ statement: the leader: it resets the count to 0, advances the generation (wrapping) and calls notify_all exactly once, under the mutex, after both
//@ statement: updates; every other arrival increments the count, leaves the generation alone and waits on the condvar with a predicate that is true
//@ statement: exactly while the generation is unchanged; the mutex is released at return
#[kani::proof]
#[kani::stub(crate::scheduler::get_scheduler, sup::get_scheduler_stub)]
#[kani::stub(<crate::park::Park as std::ops::Drop>::drop, sup::park_drop_noop)]
#[kani::stub(crate::sync::mutex::Mutex::lock, mx::mutex_lock_contract)]
#[kani::stub(crate::sync::mutex::Mutex::unlock, mx::mutex_unlock_contract)]
#[kani::stub(crate::sync::condvar::Condvar::wait_while, wait_while_contract)]
#[kani::stub(crate::sync::condvar::Condvar::notify_all, notify_all_record)]
#[kani::stub(std::sync::PoisonError::new, sup::poison_error_new_stub)]
#[kani::unwind(3)]
fn c11_4a_barrier_leader_arithmetic() {
    mx::m_reset(false);
    unsafe {
        WAITED = 0;
        NOTIFY_ALLS = 0;
        sup::ON_POISON_ERROR = None;
    }
    let n: usize = kani::any();
    kani::assume(n >= 1);
    let c: usize = kani::any();
    kani::assume(c < n);
    let g: usize = kani::any();
    let b: &'static Barrier = Box::leak(Box::new(Barrier::new(n)));
    unsafe { BAR = b };
    {
        let st = mx::peek_mut(&b.lock);
        st.count = c;
        st.generation_id = g;
    }
    let r = b.wait();
    let st = mx::peek_ref(&b.lock);
    assert!(!unsafe { mx::M_HELD } && unsafe { mx::M_LOCKS } == 1 && unsafe { mx::M_UNLOCKS } == 1, "[C11.4-mutex-released] wait takes the barrier mutex once and releases it");
    if c + 1 == n {
        assert!(r.is_leader(), "[C11.4-leader] the arrival that completes the generation is the leader");
        assert!(st.count == 0 && st.generation_id == g.wrapping_add(1), "[C11.4-reset] the leader resets the count and advances the generation");
        assert!(unsafe { NOTIFY_ALLS } == 1 && unsafe { WAITED } == 0, "[C11.4-release] the leader releases the generation with exactly one notify_all and does not wait");
        assert!(unsafe { GEN_AT_NOTIFY } == g.wrapping_add(1) && unsafe { COUNT_AT_NOTIFY } == 0, "[C11.4-update-before-notify] the generation is advanced before the waiters are notified");
    } else {
        assert!(!r.is_leader(), "[C11.4-one-leader] an arrival that does not complete the generation is not a leader");
        assert!(st.count == c + 1 && st.generation_id == g, "[C11.4-count] a non-leader only increments the count");
        assert!(unsafe { NOTIFY_ALLS } == 0 && unsafe { WAITED } == 1, "[C11.4-waits] a non-leader waits on the condvar and releases nobody");
        assert!(unsafe { PRED_AT_WAIT }, "[C11.4-predicate] the wait predicate holds while the generation is unchanged");
    }
    kani::cover!(n == 1, "barrier of one");
    kani::cover!(g == usize::MAX && c + 1 == n, "generation wraps");
}

//@ obligation: C11.4b
//@ kind: K1
//@ complete: yes
//@ functions: Barrier::wait
//@ statement: the non-leader's wait predicate turns false exactly when the generation changes (so the waiter leaves wait_while once the leader advanced it,
//@ statement: and not on a spurious wake-up before that)
#[kani::proof]
#[kani::stub(crate::scheduler::get_scheduler, sup::get_scheduler_stub)]
#[kani::stub(<crate::park::Park as std::ops::Drop>::drop, sup::park_drop_noop)]
#[kani::stub(crate::sync::mutex::Mutex::lock, mx::mutex_lock_contract)]
#[kani::stub(crate::sync::mutex::Mutex::unlock, mx::mutex_unlock_contract)]
#[kani::stub(crate::sync::condvar::Condvar::wait_while, wait_while_changes_generation)]
#[kani::stub(crate::sync::condvar::Condvar::notify_all, notify_all_record)]
#[kani::stub(std::sync::PoisonError::new, sup::poison_error_new_stub)]
#[kani::unwind(3)]
fn c11_4b_barrier_predicate_follows_generation() {
    mx::m_reset(false);
    unsafe { sup::ON_POISON_ERROR = None };
    let b: &'static Barrier = Box::leak(Box::new(Barrier::new(2)));
    unsafe { BAR = b };
    let g: usize = kani::any();
    mx::peek_mut(&b.lock).generation_id = g;
    let r = b.wait();
    assert!(!r.is_leader(), "[C11.4-one-leader] the first of two arrivals is not the leader");
}

fn wait_while_changes_generation<'a, T, F>(_c: &Condvar, mut guard: MutexGuard<'a, T>, mut condition: F) -> LockResult<MutexGuard<'a, T>>
where
    F: FnMut(&mut T) -> bool,
{
    assert!(condition(&mut *guard), "[C11.4-predicate] the wait predicate holds while the generation is unchanged");
    unsafe {
        let st = mx::peek_mut(&(*BAR).lock);
        let new_gen: usize = kani::any();
        let old = st.generation_id;
        st.generation_id = new_gen;
        assert!(condition(&mut *guard) == (new_gen == old), "[C11.4-predicate-exact] the wait predicate is false exactly when the generation changed");
    }
    Ok(guard)
}
