//! C18 — I/O time-outs: the timer handler resumes the blocked coroutine with TimedOut unless it was disarmed;
//! whoever takes the coroutine first (selector, subscribe, cancel) disarms and removes the timer, so a timer armed
//! for one operation can never hit a later operation. Child module of `io/sys/unix/mod.rs` (module `io::sys`).
//@ file-needs: tl cz
//@ file-inject: src/io/sys/unix/mod.rs
//@ file-modpath: io::sys
//@ file-property: C18
use super::*;
use crate::coroutine_impl::vk_support as sup;
use crate::timeout_list::vk_tl as tl;
use may_queue::mpsc_list_v1::Queue as TimeoutQueue;

fn resumptions() -> usize {
    sup::count(sup::E_SCHEDULE) + sup::count(sup::E_RUN)
}

fn mk_event() -> &'static EventData {
    Box::leak(Box::new(EventData::new(7)))
}

//@ obligation: C18.2a
//@ kind: K2
//@ complete: yes
//@ functions: timeout_handler
//@ statement: the I/O timer handler: with a disarmed entry (event_data null) it does nothing; otherwise it clears the socket's timer slot, takes the
//@ statement: blocked coroutine and resumes it exactly once with the TimedOut result — or does nothing more if the coroutine was already taken
#[kani::proof]
#[kani::stub(crate::scheduler::get_scheduler, sup::get_scheduler_stub)]
#[kani::stub(crate::scheduler::Scheduler::schedule, sup::schedule_stub)]
#[kani::stub(crate::coroutine_impl::run_coroutine, sup::run_coroutine_stub)]
#[kani::stub(<crate::park::Park as std::ops::Drop>::drop, sup::park_drop_noop)]
#[kani::stub(crate::yield_now::set_co_para, sup::set_co_para_kind_only)]
#[kani::unwind(3)]
fn c18_2a_timeout_handler() {
    sup::trace_reset();
    sup::scheduler_reset();
    let ev = mk_event();
    let q: &'static TimeoutQueue<crate::timeout_list::TimeoutData<TimerData>> = Box::leak(Box::new(TimeoutQueue::new()));
    // case 1: disarmed entry
    timeout_handler(TimerData { event_data: std::ptr::null_mut() });
    assert!(resumptions() == 0, "[C18.2-disarmed-noop] a disarmed timer entry must not touch anything");
    // case 2 / 3: armed entry, coroutine present or already taken
    let (h, _) = q.push(tl::mk_timeout_data(ev.timer_data()));
    ev.timer.borrow_mut().replace(h);
    let present: bool = kani::any();
    let co: CoroutineImpl = generator::shim_new_empty(0x1000);
    let id = co.shim_id();
    if present {
        ev.co.store(co);
    } else {
        std::mem::forget(co);
    }
    timeout_handler(ev.timer_data());
    assert!(ev.timer.borrow().is_none(), "[C18.2-slot-cleared] the fired timer is taken out of the socket's timer slot");
    if present {
        assert!(resumptions() == 1, "[C18.2-timeout-resumes-once] the timed-out coroutine is resumed exactly once");
        let r = sup::resumed_ref().unwrap();
        assert!(r.shim_id() == id && r.shim_peek_para().map(|e| e.kind()) == Some(std::io::ErrorKind::TimedOut), "[C18.2-timedout-result] the coroutine is resumed with the TimedOut result");
        assert!(ev.co.take().is_none(), "[C18.2-taken] the coroutine was taken out of the I/O slot");
    } else {
        assert!(resumptions() == 0, "[C18.2-already-taken] if somebody else already took the coroutine the handler resumes nobody");
    }
}

//@ obligation: C18.2b
//@ kind: K2
//@ complete: yes
//@ functions: EventData::schedule, EventData::fast_schedule, timeout_handler
//@ statement: a readiness event (or subscribe's self-wake) for an operation with an armed timer: the handle is taken out of the socket's timer slot,
//@ statement: the entry is DISARMED (its back pointer nulled) before it is removed/left to expire, and the coroutine is handed over exactly once;
//@ statement: when that stale entry later expires the handler does nothing — the time-out of this operation cannot hit the next one
#[kani::proof]
#[kani::stub(crate::scheduler::get_scheduler, sup::get_scheduler_stub)]
#[kani::stub(crate::scheduler::Scheduler::schedule, sup::schedule_stub)]
#[kani::stub(crate::coroutine_impl::run_coroutine, sup::run_coroutine_stub)]
#[kani::stub(<crate::park::Park as std::ops::Drop>::drop, sup::park_drop_noop)]
#[kani::stub(crate::yield_now::set_co_para, sup::set_co_para_kind_only)]
#[kani::unwind(3)]
fn c18_2b_taker_disarms_the_timer() {
    sup::trace_reset();
    sup::scheduler_reset();
    let ev = mk_event();
    let q: &'static TimeoutQueue<crate::timeout_list::TimeoutData<TimerData>> = Box::leak(Box::new(TimeoutQueue::new()));
    let (h, _) = q.push(tl::mk_timeout_data(ev.timer_data()));
    ev.timer.borrow_mut().replace(h);
    let co: CoroutineImpl = generator::shim_new_empty(0x1000);
    ev.co.store(co);
    if kani::any() {
        ev.schedule();
    } else {
        ev.fast_schedule();
    }
    assert!(resumptions() == 1, "[C18.2-handover-once] the ready coroutine is handed to the scheduler exactly once");
    assert!(ev.timer.borrow().is_none(), "[C18.2-taker-takes-timer] whoever takes the coroutine also takes the timer handle out of the slot");
    // the entry is the newest one of its list, so it cannot be unlinked and will expire later: it must be disarmed
    let stale = q.pop();
    match stale {
        Some(d) => {
            assert!(d.data.event_data.is_null(), "[C18.2-disarmed] the timer entry left behind is disarmed: it must not time out a later operation on this socket");
            // the next operation on the same socket is blocked when the stale entry expires
            let co2: CoroutineImpl = generator::shim_new_empty(0x1000);
            ev.co.store(co2);
            timeout_handler(d.data);
            assert!(resumptions() == 1, "[C18.2-stale-timer-harmless] an expired stale timer entry resumed a later operation");
            std::mem::forget(ev.co.take());
        }
        None => assert!(false, "[C18.2-entry-kept] the newest entry of a timer list cannot be unlinked; it stays until it expires"),
    }
}
