//! C11 — Condvar loses no notification and always re-acquires the mutex. Child module of `sync/condvar.rs`.
//! The associated Mutex is replaced by its contract (C05); the wait queue by the abstract FIFO.
//@ file-needs: blk c05 pz cz
//@ file-inject: src/sync/condvar.rs
//@ file-property: C11
use super::*;
use crate::coroutine_impl::vk_support as sup;
use crate::sync::blocking::vk_blk as env;
use crate::sync::mutex::vk_c05 as mx;

static mut NOTIFIES: usize = 0;
fn notify_one_count_stub(_c: &Condvar) {
    unsafe { NOTIFIES += 1 };
}

static mut PUSHED_AT_UNLOCK: usize = 0;
static mut UNLOCKS_AT_PARK: usize = 0;
fn sample_at_unlock() {
    unsafe { PUSHED_AT_UNLOCK = sup::Q_PUSHES };
}

/// park stub for C11.1: samples the mutex state at the moment of parking, then behaves as the environment park
fn park_sampling(b: &SyncBlocker, t: Option<Duration>) -> Result<(), ParkError> {
    unsafe {
        UNLOCKS_AT_PARK = mx::M_UNLOCKS;
        assert!(!mx::M_HELD, "[C11.1-unlock-before-park] the waiter parks while still holding the mutex");
    }
    env::park_env(b, t)
}

//@ obligation: C11.1a
//@ kind: K3
//@ complete: yes
//@ functions: Condvar::wait_impl
//@ statement: wait_impl, in thread and in coroutine context, with and without time-out, for every park result: the blocker is in the wait queue
//@ statement: BEFORE the mutex is released, the mutex is released exactly once BEFORE parking, and it is held again (re-locked exactly once) at
//@ statement: every return; the coroutine's cancel-disable count is back to its initial value
#[kani::proof]
#[kani::stub(crate::scheduler::get_scheduler, sup::get_scheduler_stub)]
#[kani::stub(<crate::park::Park as std::ops::Drop>::drop, sup::park_drop_noop)]
#[kani::stub(crossbeam::queue::SegQueue::push, sup::seg_push_stub)]
#[kani::stub(crossbeam::queue::SegQueue::pop, sup::seg_pop_stub)]
#[kani::stub(crate::sync::blocking::SyncBlocker::current, env::current_env)]
#[kani::stub(crate::sync::blocking::SyncBlocker::park, park_sampling)]
#[kani::stub(crate::sync::blocking::SyncBlocker::is_unparked, env::is_unparked_env)]
#[kani::stub(crate::sync::blocking::SyncBlocker::set_release, env::set_release_env)]
#[kani::stub(crate::sync::blocking::SyncBlocker::take_release, env::take_release_env)]
#[kani::stub(crate::sync::blocking::Blocker::unpark, sup::blocker_unpark_count)]
#[kani::stub(crate::sync::mutex::Mutex::lock, mx::mutex_lock_contract)]
#[kani::stub(crate::sync::mutex::Mutex::unlock, mx::mutex_unlock_contract)]
#[kani::stub(crate::sync::condvar::Condvar::notify_one, notify_one_count_stub)]
#[kani::unwind(5)]
fn c11_1a_wait_orders_enqueue_unlock_park_relock() {
    sup::gq_reset();
    mx::m_reset(true);
    unsafe {
        NOTIFIES = 0;
        mx::ON_M_UNLOCK = Some(sample_at_unlock);
    }
    let in_co: bool = kani::any();
    let mut state0 = 0;
    let co = if in_co { Some(sup::enter_coroutine()) } else { None };
    if let Some(c) = co {
        state0 = sup::cancel_of(c).vk_state();
    }
    let timed: bool = kani::any();
    env::env_reset(kani::any(), in_co, timed, 1);
    let cv: &'static Condvar = Box::leak(Box::new(Condvar::new()));
    let m: &'static Mutex<u8> = Box::leak(Box::new(Mutex::new(0)));
    let r = cv.wait_impl(m, if timed { Some(Duration::from_millis(3)) } else { None });
    assert!(unsafe { sup::Q_PUSHES } == 1, "[C11.1-enqueued] the waiter registers exactly once");
    assert!(unsafe { PUSHED_AT_UNLOCK } == 1, "[C11.1-enqueue-before-unlock] the blocker must be in the wait queue before the mutex is released");
    assert!(unsafe { UNLOCKS_AT_PARK } == 1 && unsafe { mx::M_UNLOCKS } == 1, "[C11.1-unlock-once] the mutex is released exactly once, before parking");
    assert!(unsafe { mx::M_HELD } && unsafe { mx::M_LOCKS } == 1, "[C11.1-relocked] wait re-acquires the mutex exactly once before it returns");
    assert!(r.is_ok() == (unsafe { env::PARK_LAST } == 0), "[C11.1-result] wait_impl passes the park result on");
    if let Some(c) = co {
        assert!(sup::cancel_of(c).vk_state() == state0, "[C11.1-cancel-balance] disable_cancel/enable_cancel are balanced");
    }
    kani::cover!(in_co && r == Err(ParkError::Canceled), "cancelled coroutine waiter");
    kani::cover!(!in_co && r == Err(ParkError::Timeout), "timed-out thread waiter");
    sup::leave_coroutine();
}

//@ obligation: C11.2a
//@ property: C11 C09
//@ kind: K3
//@ complete: yes
//@ functions: Condvar::wait_impl
//@ statement: a wait that times out or is cancelled, against every interleaving of one concurrent notify_one (pop; unpark; take_release) with the
//@ statement: abort sequence: the notification is passed on exactly once — by the waiter calling notify_one or by the notifier seeing the release
//@ statement: flag — and nothing is notified when there was no notification; a successful wait keeps it
#[kani::proof]
#[kani::stub(crate::scheduler::get_scheduler, sup::get_scheduler_stub)]
#[kani::stub(<crate::park::Park as std::ops::Drop>::drop, sup::park_drop_noop)]
#[kani::stub(crossbeam::queue::SegQueue::push, sup::seg_push_stub)]
#[kani::stub(crossbeam::queue::SegQueue::pop, sup::seg_pop_stub)]
#[kani::stub(crate::sync::blocking::SyncBlocker::current, env::current_env)]
#[kani::stub(crate::sync::blocking::SyncBlocker::park, env::park_env)]
#[kani::stub(crate::sync::blocking::SyncBlocker::is_unparked, env::is_unparked_env)]
#[kani::stub(crate::sync::blocking::SyncBlocker::set_release, env::set_release_env)]
#[kani::stub(crate::sync::blocking::SyncBlocker::take_release, env::take_release_env)]
#[kani::stub(crate::sync::blocking::Blocker::unpark, sup::blocker_unpark_count)]
#[kani::stub(crate::sync::mutex::Mutex::lock, mx::mutex_lock_contract)]
#[kani::stub(crate::sync::mutex::Mutex::unlock, mx::mutex_unlock_contract)]
#[kani::stub(crate::sync::condvar::Condvar::notify_one, notify_one_count_stub)]
#[kani::unwind(5)]
fn c11_2a_aborted_wait_passes_the_notification_on_once() {
    sup::gq_reset();
    mx::m_reset(true);
    unsafe { NOTIFIES = 0 };
    let _co = sup::enter_coroutine();
    env::env_reset(kani::any(), true, true, 1);
    let cv: &'static Condvar = Box::leak(Box::new(Condvar::new()));
    let m: &'static Mutex<u8> = Box::leak(Box::new(Mutex::new(0)));
    let r = cv.wait_impl(m, Some(Duration::from_millis(3)));
    env::env_finish();
    let by_waiter = unsafe { NOTIFIES };
    let by_waker = if unsafe { env::WAKER_FORWARDED } { 1 } else { 0 };
    if r.is_ok() {
        assert!(by_waiter + by_waker == 0, "[C11.2-kept] a waiter that was notified keeps the notification");
    } else if unsafe { env::WAKER_EXISTS } {
        assert!(by_waiter + by_waker == 1, "[C11.2-forward-once] a notification that raced with the time-out/cancel must be passed on exactly once");
    } else {
        assert!(by_waiter + by_waker == 0, "[C11.2-no-phantom] without a notification nobody is notified");
    }
    kani::cover!(by_waiter == 1, "passed on by the waiter");
    kani::cover!(by_waker == 1, "passed on by the notifier");
    sup::leave_coroutine();
}

//@ obligation: C11.2b
//@ property: C11 C09
//@ kind: K3
//@ complete: yes
//@ functions: Condvar::wait, Condvar::wait_timeout
//@ statement: wait()/wait_timeout() when wait_impl reports Canceled: the guard is forgotten (no poisoning), the mutex is released exactly once and only
//@ statement: then the cancel panic is raised; on time-out wait_timeout returns the guard (mutex held) with timed_out() = true; on success false
#[kani::proof]
#[kani::stub(crate::scheduler::get_scheduler, sup::get_scheduler_stub)]
#[kani::stub(<crate::park::Park as std::ops::Drop>::drop, sup::park_drop_noop)]
#[kani::stub(crate::sync::condvar::Condvar::wait_impl, wait_impl_contract)]
#[kani::stub(crate::sync::mutex::Mutex::lock, mx::mutex_lock_contract)]
#[kani::stub(crate::sync::mutex::Mutex::unlock, mx::mutex_unlock_contract)]
#[kani::stub(crate::cancel::trigger_cancel_panic, sup::cancel_panic_stub)]
#[kani::stub(std::sync::PoisonError::new, sup::poison_error_new_stub)]
#[kani::unwind(3)]
fn c11_2b_wait_releases_mutex_before_cancel_panic() {
    mx::m_reset(false);
    unsafe {
        sup::ON_CANCEL_PANIC = Some(c11_2b_at_panic);
        sup::ON_POISON_ERROR = None;
    }
    let _co = sup::enter_coroutine();
    let cv: &'static Condvar = Box::leak(Box::new(Condvar::new()));
    let m: &'static Mutex<u8> = Box::leak(Box::new(Mutex::new(0)));
    unsafe { MX = m };
    let g = match m.lock() {
        Ok(g) => g,
        Err(_) => return,
    };
    let r: u8 = kani::any();
    kani::assume(r <= 2);
    unsafe { WAIT_IMPL_RESULT = r };
    let timed: bool = kani::any();
    if timed {
        match cv.wait_timeout(g, Duration::from_millis(3)) {
            Ok((g2, t)) => {
                assert!(r != 2, "[C11.2b-cancel-panics] a cancelled wait must raise the cancel panic");
                assert!(t.timed_out() == (r == 1), "[C11.2b-timed-out] timed_out() iff the wait timed out");
                assert!(unsafe { mx::M_HELD } && unsafe { mx::M_UNLOCKS } == 0, "[C11.2b-guard-held] the returned guard still holds the mutex");
                std::mem::forget(g2);
            }
            Err(_) => {}
        }
    } else {
        kani::assume(r != 1);
        match cv.wait(g) {
            Ok(g2) => {
                assert!(r != 2, "[C11.2b-cancel-panics] a cancelled wait must raise the cancel panic");
                assert!(unsafe { mx::M_HELD } && unsafe { mx::M_UNLOCKS } == 0, "[C11.2b-guard-held] the returned guard still holds the mutex");
                std::mem::forget(g2);
            }
            Err(_) => {}
        }
    }
    sup::leave_coroutine();
}

static mut MX: *const Mutex<u8> = std::ptr::null();
static mut WAIT_IMPL_RESULT: u8 = 0;
/// contract of wait_impl (C11.1): returns with the mutex held; result = park result
fn wait_impl_contract<T>(_c: &Condvar, _lock: &Mutex<T>, dur: Option<Duration>) -> Result<(), ParkError> {
    match unsafe { WAIT_IMPL_RESULT } {
        0 => Ok(()),
        1 => {
            kani::assume(dur.is_some());
            Err(ParkError::Timeout)
        }
        _ => Err(ParkError::Canceled),
    }
}

fn c11_2b_at_panic() {
    kani::cover!(true, "cancel panic reached");
    assert!(unsafe { WAIT_IMPL_RESULT } == 2, "[C11.2b-panic-only-on-cancel] the cancel panic is raised only for a cancelled wait");
    assert!(!unsafe { mx::M_HELD } && unsafe { mx::M_UNLOCKS } == 1, "[C11.2b-unlock-before-panic] the mutex is released exactly once before the cancel panic");
    assert!(!unsafe { &*MX }.is_poisoned(), "[C11.2b-no-poison] a cancelled wait does not poison the mutex");
}

//@ obligation: C11.3a
//@ kind: K2
//@ complete: yes
//@ functions: Condvar::notify_one, Condvar::notify_all
//@ statement: with 0..=2 registered waiters, the first of which may have abandoned its wait (release flag): notify_one pops and unparks exactly one
//@ statement: waiter — and, iff that one had abandoned, passes the notification to the next — or does nothing when none waits; notify_all unparks all
#[kani::proof]
#[kani::stub(crate::scheduler::get_scheduler, sup::get_scheduler_stub)]
#[kani::stub(<crate::park::Park as std::ops::Drop>::drop, sup::park_drop_noop)]
#[kani::stub(crossbeam::queue::SegQueue::push, sup::seg_push_stub)]
#[kani::stub(crossbeam::queue::SegQueue::pop, sup::seg_pop_stub)]
#[kani::stub(crate::sync::blocking::Blocker::unpark, sup::blocker_unpark_count)]
#[kani::unwind(5)]
fn c11_3a_notify_one_and_all() {
    sup::gq_reset();
    unsafe { sup::BLOCKER_UNPARKS = 0 };
    let cv: &'static Condvar = Box::leak(Box::new(Condvar::new()));
    let w1 = SyncBlocker::current();
    let w2 = SyncBlocker::current();
    let n: u8 = kani::any();
    kani::assume(n <= 2);
    let r1: bool = kani::any();
    if r1 {
        w1.set_release();
    }
    // concrete pushes per case keep the queue pointers concrete
    let all: bool = kani::any();
    if n == 0 {
        if all { cv.notify_all() } else { cv.notify_one() }
        assert!(unsafe { sup::Q_POPS } == 0 && unsafe { sup::BLOCKER_UNPARKS } == 0, "[C11.3-none] notifying without waiters does nothing");
    } else if n == 1 {
        cv.to_wake.push(w1.clone());
        if all { cv.notify_all() } else { cv.notify_one() }
        assert!(w1.is_unparked() && unsafe { sup::BLOCKER_UNPARKS } == 1, "[C11.3-one] the only waiter is unparked exactly once");
    } else {
        cv.to_wake.push(w1.clone());
        cv.to_wake.push(w2.clone());
        if all {
            cv.notify_all();
            assert!(w1.is_unparked() && w2.is_unparked() && unsafe { sup::BLOCKER_UNPARKS } == 2, "[C11.3-all] notify_all unparks every waiter");
        } else {
            cv.notify_one();
            assert!(w1.is_unparked(), "[C11.3-first] notify_one unparks the longest waiting party");
            if r1 {
                assert!(w2.is_unparked() && unsafe { sup::BLOCKER_UNPARKS } == 2, "[C11.3-pass-on] the notification given to an abandoned waiter is passed to the next one");
            } else {
                assert!(!w2.is_unparked() && unsafe { sup::BLOCKER_UNPARKS } == 1, "[C11.3-one-only] notify_one wakes exactly one live waiter");
            }
        }
    }
    kani::cover!(n == 2 && r1 && !all, "notification passed on");
}

//@ obligation: C11.canary
//@ kind: K3
//@ canary: yes
//@ functions: Condvar::wait_impl
//@ statement: canary — claims the mutex is never re-locked; must FAIL
#[kani::proof]
#[kani::stub(crate::scheduler::get_scheduler, sup::get_scheduler_stub)]
#[kani::stub(<crate::park::Park as std::ops::Drop>::drop, sup::park_drop_noop)]
#[kani::stub(crossbeam::queue::SegQueue::push, sup::seg_push_stub)]
#[kani::stub(crossbeam::queue::SegQueue::pop, sup::seg_pop_stub)]
#[kani::stub(crate::sync::blocking::SyncBlocker::current, env::current_env)]
#[kani::stub(crate::sync::blocking::SyncBlocker::park, env::park_env)]
#[kani::stub(crate::sync::blocking::SyncBlocker::is_unparked, env::is_unparked_env)]
#[kani::stub(crate::sync::blocking::SyncBlocker::set_release, env::set_release_env)]
#[kani::stub(crate::sync::blocking::SyncBlocker::take_release, env::take_release_env)]
#[kani::stub(crate::sync::blocking::Blocker::unpark, sup::blocker_unpark_count)]
#[kani::stub(crate::sync::mutex::Mutex::lock, mx::mutex_lock_contract)]
#[kani::stub(crate::sync::mutex::Mutex::unlock, mx::mutex_unlock_contract)]
#[kani::stub(crate::sync::condvar::Condvar::notify_one, notify_one_count_stub)]
#[kani::unwind(5)]
fn c11_canary() {
    sup::gq_reset();
    mx::m_reset(true);
    env::env_reset(true, false, false, 1);
    let cv: &'static Condvar = Box::leak(Box::new(Condvar::new()));
    let m: &'static Mutex<u8> = Box::leak(Box::new(Mutex::new(0)));
    let _ = cv.wait_impl(m, None);
    assert!(unsafe { mx::M_LOCKS } == 0, "[C11.canary] canary (expected to fail)");
}
