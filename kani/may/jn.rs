//! White-box helpers for `join.rs` (no obligations). Child module of `join.rs`.
//@ file-inject: src/join.rs
//@ file-mirror: src/join.rs :: pub fn trigger(&self) { self.state.store(false, Ordering::Release); if let Some(w) = self.to_wake.take() { w.unpark(); } }
use super::*;

pub(crate) fn panic_slot_is_some(j: &Join) -> bool {
    match j.panic.take() {
        Some(p) => {
            j.panic.store(p);
            true
        }
        None => false,
    }
}

/// the body of `Join::trigger` for harnesses that stub `trigger` in order to observe it (verbatim copy; the real
/// function is under contract in C01.2a)
pub(crate) fn real_trigger(j: &Join) {
    j.state.store(false, Ordering::Release);
    if let Some(w) = j.to_wake.take() {
        w.unpark();
    }
}

impl<T> JoinHandle<T> {
    /// identity of the Join this handle waits on
    pub(crate) fn vk_join_ptr(&self) -> *const Join {
        Arc::as_ptr(&self.join)
    }
}
