//! C01 — join() reports the true outcome and never returns early (Join side). Child module of `join.rs`.
//! `Blocker::park`/`unpark` are replaced by the fresh-blocker contract (proved for the real code in C02).
//@ file-inject: src/join.rs
//@ file-property: C01
use super::*;
use crate::coroutine_impl::vk_support as sup;
use crate::park::ParkError;
use std::time::Duration;

static mut JOIN: *const Join = std::ptr::null();
/// the child finishes (real `trigger`) at one of the waiter's observation points
static mut TRIGGER_AT: u8 = 0; // 0 never/before, 1 at the first state load.., encoded by the harness
static mut PARKS: usize = 0;
static mut UNPARKS: usize = 0;
static mut STATE_AT_PARK: bool = false;
static mut REGISTERED_AT_PARK: bool = false;
static mut PARK_RESULT: u8 = 0;
static mut TRIGGERED: bool = false;

fn to_wake_is_some(j: &Join) -> bool {
    match j.to_wake.take() {
        Some(b) => {
            j.to_wake.store(b);
            true
        }
        None => false,
    }
}

/// fresh-blocker park contract + observation of the waiter's registration at the moment it parks;
/// the child may finish while the waiter is parked
fn park_observe(_b: &Blocker, _t: Option<Duration>) -> std::result::Result<(), ParkError> {
    unsafe {
        if PARKS >= 1 {
            // the wait goes on; bounded exploration of the retry loop
            kani::assume(false);
        }
        PARKS += 1;
        let j = &*JOIN;
        REGISTERED_AT_PARK = to_wake_is_some(j);
        STATE_AT_PARK = j.state.load(Ordering::Acquire);
        // while parked: the child finishes (it finds the registered blocker and unparks it) ...
        if kani::any() {
            j.trigger();
            TRIGGERED = true;
        }
        let r: u8 = kani::any();
        kani::assume(r == 0 || r == 2);
        // ... Ok only if an unpark was delivered; Canceled only for a cancellable coroutine
        kani::assume(r != 0 || UNPARKS > 0);
        kani::assume(r != 2 || MAY_CANCEL);
        // nothing wakes it: parked forever
        PARK_RESULT = r;
        if r == 0 { Ok(()) } else { Err(ParkError::Canceled) }
    }
}
static mut MAY_CANCEL: bool = false;

fn unpark_observe(_b: &Blocker) {
    unsafe { UNPARKS += 1 };
}

fn reset(j: &'static Join) {
    unsafe {
        JOIN = j;
        PARKS = 0;
        UNPARKS = 0;
        TRIGGERED = false;
        PARK_RESULT = 0;
        MAY_CANCEL = false;
    }
}

//@ obligation: C01.1a
//@ property: C01 C14
//@ kind: K3
//@ complete: yes
//@ functions: Join::wait, JoinHandle::wait, Join::trigger
//@ statement: wait() in thread context with the child finishing before the call, between the first check and the registration, or while the
//@ statement: waiter is parked: the waiter parks only with its blocker registered and after re-reading "not finished"; if the re-check reads
//@ statement: "finished" the blocker is taken back and it does not park; whenever wait() returns the child has finished (state = done)
#[kani::proof]
#[kani::stub(crate::scheduler::get_scheduler, sup::get_scheduler_stub)]
#[kani::stub(<crate::park::Park as std::ops::Drop>::drop, sup::park_drop_noop)]
#[kani::stub(crate::sync::blocking::Blocker::park, park_observe)]
#[kani::stub(crate::sync::blocking::Blocker::unpark, unpark_observe)]
#[kani::stub(crate::sync::blocking::Blocker::current, blocker_current_env)]
#[kani::unwind(3)]
fn c01_1a_wait_registers_then_rechecks() {
    let panic = Arc::new(AtomicOption::none());
    let j: &'static Join = Box::leak(Box::new(Join::new(panic)));
    reset(j);
    // the child may already be done
    if kani::any() {
        j.trigger();
        unsafe { TRIGGERED = true };
    }
    unsafe { TRIGGER_IN_CURRENT = kani::any() };
    j.wait();
    // wait() returned
    assert!(!j.state.load(Ordering::Acquire), "[C01.5-wait-implies-finished] wait() returned although the coroutine has not finished");
    assert!(unsafe { TRIGGERED }, "[C01.5-wait-implies-finished] wait() returned although the coroutine has not finished");
    if unsafe { PARKS } > 0 {
        assert!(unsafe { REGISTERED_AT_PARK }, "[C01.1-register-before-park] the waiter parks without having registered its blocker: trigger cannot wake it");
        assert!(unsafe { STATE_AT_PARK }, "[C01.1-recheck-before-park] the waiter parks although the coroutine had already finished when it re-checked");
    } else {
        assert!(!to_wake_is_some(j), "[C01.1-deregister] a waiter that does not park takes its blocker back");
    }
    kani::cover!(unsafe { PARKS } == 1, "waiter parked and was woken by trigger");
    kani::cover!(unsafe { PARKS } == 0 && unsafe { TRIGGER_IN_CURRENT }, "child finished between the first check and the registration");
}

static mut TRIGGER_IN_CURRENT: bool = false;
/// `Blocker::current()` is the point between the waiter's first state check and its registration: the child may
/// finish exactly there (the lost-wake-up window)
fn blocker_current_env() -> Arc<Blocker> {
    unsafe {
        if TRIGGER_IN_CURRENT && !TRIGGERED {
            (*JOIN).trigger();
            TRIGGERED = true;
        }
    }
    Arc::new(Blocker::new(false))
}

//@ obligation: C01.2a
//@ kind: K3
//@ complete: yes
//@ functions: Join::trigger
//@ statement: trigger(): marks the coroutine finished BEFORE it looks for a waiter; a registered waiter is taken and unparked exactly once, nobody
//@ statement: else is woken; a second trigger wakes nobody
#[kani::proof]
#[kani::stub(crate::scheduler::get_scheduler, sup::get_scheduler_stub)]
#[kani::stub(<crate::park::Park as std::ops::Drop>::drop, sup::park_drop_noop)]
#[kani::stub(crate::sync::blocking::Blocker::unpark, unpark_checks_state)]
#[kani::unwind(3)]
fn c01_2a_trigger_marks_done_then_wakes() {
    let panic = Arc::new(AtomicOption::none());
    let j: &'static Join = Box::leak(Box::new(Join::new(panic)));
    reset(j);
    let has_waiter: bool = kani::any();
    if has_waiter {
        j.to_wake.store(Arc::new(Blocker::new(false)));
    }
    assert!(j.state.load(Ordering::Acquire), "[C01.2-fresh] a fresh Join reads not-finished");
    j.trigger();
    assert!(!j.state.load(Ordering::Acquire), "[C01.2-done] trigger marks the coroutine finished");
    assert!(unsafe { UNPARKS } == if has_waiter { 1 } else { 0 }, "[C01.2-wake-registered] trigger unparks the registered waiter exactly once and nobody else");
    assert!(!to_wake_is_some(j), "[C01.2-taken] the waiter's blocker is taken out");
    j.trigger();
    assert!(unsafe { UNPARKS } == if has_waiter { 1 } else { 0 }, "[C01.2-idempotent] a second trigger wakes nobody");
}

fn unpark_checks_state(_b: &Blocker) {
    unsafe {
        UNPARKS += 1;
        assert!(!(*JOIN).state.load(Ordering::Acquire), "[C01.2-done-before-wake] the waiter is woken before the coroutine is marked finished (it would re-check and park again)");
    }
}

//@ obligation: C01.4a
//@ property: C01 C13
//@ kind: K1
//@ complete: yes
//@ functions: JoinHandle::join, JoinHandle::is_done, JoinHandle::wait, make_join_handle
//@ statement: outcome mapping of join() for all four combinations of (result slot, panic slot) after the coroutine finished: a stored value => Ok with
//@ statement: exactly that value (whatever the panic slot holds); no value but a payload => Err with exactly that payload; neither => Err(Error::Cancel);
//@ statement: is_done() is true iff the coroutine finished
#[kani::proof]
#[kani::stub(crate::scheduler::get_scheduler, sup::get_scheduler_stub)]
#[kani::stub(<crate::park::Park as std::ops::Drop>::drop, sup::park_drop_noop)]
#[kani::stub(crate::sync::blocking::Blocker::park, park_observe)]
#[kani::stub(crate::sync::blocking::Blocker::unpark, unpark_observe)]
#[kani::unwind(3)]
fn c01_4a_join_outcome_mapping() {
    let (co, handle, join) = sup::mk_suspended_coroutine();
    std::mem::forget(co);
    let j: &'static Join = unsafe { &*Arc::as_ptr(&join) };
    reset(j);
    let packet: Arc<AtomicOption<u32>> = Arc::new(AtomicOption::none());
    let panic = j.panic.clone();
    let h = make_join_handle(handle, join.clone(), packet.clone(), panic.clone());
    assert!(!h.is_done(), "[C01.4-not-done] is_done() is false while the coroutine runs");
    let has_val: bool = kani::any();
    let has_panic: bool = kani::any();
    let v: u32 = kani::any();
    let pv: u16 = kani::any();
    if has_val {
        packet.store(v);
    }
    if has_panic {
        j.set_panic_data(Box::new(pv));
    }
    j.trigger();
    assert!(h.is_done(), "[C01.4-done] is_done() is true once the coroutine finished");
    let r = h.join();
    assert!(unsafe { PARKS } == 0, "[C01.4-no-block] join on a finished coroutine does not block");
    match r {
        Ok(x) => assert!(has_val && x == v, "[C01.4-value] join returns exactly the closure's value"),
        Err(e) => {
            assert!(!has_val, "[C01.4-value-wins] a stored value must be returned as Ok");
            if has_panic {
                assert!(e.downcast_ref::<u16>() == Some(&pv), "[C01.4-payload] join returns exactly the panic payload");
            } else {
                assert!(e.downcast_ref::<generator::Error>() == Some(&generator::Error::Cancel), "[C01.4-cancel] neither value nor payload means Err(Cancel)");
            }
            std::mem::forget(e);
        }
    }
    std::mem::forget(join);
}

//@ obligation: C01.5a
//@ property: C01 C14
//@ kind: K3
//@ complete: yes
//@ functions: Join::wait, JoinHandle::join
//@ statement: the same as C01.1a for a waiter that is a cancellable coroutine (what coroutine::scope / join! / select! owners are): if the
//@ statement: park is ended by a cancellation of the WAITER, wait() must still not return before the child has finished
#[kani::proof]
#[kani::stub(crate::scheduler::get_scheduler, sup::get_scheduler_stub)]
#[kani::stub(<crate::park::Park as std::ops::Drop>::drop, sup::park_drop_noop)]
#[kani::stub(crate::sync::blocking::Blocker::park, park_observe)]
#[kani::stub(crate::sync::blocking::Blocker::unpark, unpark_observe)]
#[kani::unwind(3)]
fn c01_5a_cancelled_waiter_does_not_leave_early() {
    let _co = sup::enter_coroutine();
    let panic = Arc::new(AtomicOption::none());
    let j: &'static Join = Box::leak(Box::new(Join::new(panic)));
    reset(j);
    unsafe { MAY_CANCEL = true };
    j.wait();
    kani::cover!(unsafe { PARK_RESULT } == 2, "the waiter's park was ended by a cancellation");
    assert!(!j.state.load(Ordering::Acquire) && unsafe { TRIGGERED }, "[C01.5-cancelled-waiter-leaves-early] wait() returned to a cancelled owner although the coroutine is still running (a scope can be left while its child uses the frame)");
    sup::leave_coroutine();
}

//@ obligation: C01.canary
//@ kind: K3
//@ canary: yes
//@ functions: Join::wait
//@ statement: canary — claims wait never parks; must FAIL
#[kani::proof]
#[kani::stub(crate::scheduler::get_scheduler, sup::get_scheduler_stub)]
#[kani::stub(<crate::park::Park as std::ops::Drop>::drop, sup::park_drop_noop)]
#[kani::stub(crate::sync::blocking::Blocker::park, park_observe)]
#[kani::stub(crate::sync::blocking::Blocker::unpark, unpark_observe)]
#[kani::unwind(3)]
fn c01_canary() {
    let panic = Arc::new(AtomicOption::none());
    let j: &'static Join = Box::leak(Box::new(Join::new(panic)));
    reset(j);
    j.wait();
    assert!(unsafe { PARKS } == 0, "[C01.canary] canary (expected to fail)");
}
