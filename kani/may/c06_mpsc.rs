//! C06 / C07 (mpsc channel): a blocked receiver is woken by the send that makes a value available and by the
//! drop of the last sender; values are delivered once, in order; disconnect is reported only after draining.
//! Child module of `sync/mpsc.rs`. The block queue is replaced by its contract (abstract FIFO, C03); the
//! blocker by the fresh-blocker contract (C02). ONE concurrent sender-side action (a complete `send` or the
//! drop of the last sender, real code) is injected at every observation point of the receiver.
//@ file-inject: src/sync/mpsc.rs
//@ file-property: C06 C07
use super::*;
use crate::coroutine_impl::vk_support as sup;
use crate::park::ParkError;

static mut INNER: *const InnerQueue<u8> = std::ptr::null();
// ---- abstract FIFO of u8 (contract of may_queue::mpsc::Queue, C03) ----
static mut Q: [u8; 4] = [0; 4];
static mut QH: usize = 0;
static mut QT: usize = 0;
static mut PUSHES: usize = 0;
// ---- the concurrent sender side ----
/// 0 nothing pending, 1 a send is pending, 2 the drop of the last sender is pending
static mut ENV_PENDING: u8 = 0;
static mut ENV_VALUE: u8 = 0;
static mut ENV_DONE: bool = false;
static mut IN_ENV: bool = false;
// ---- blocker observations ----
static mut UNPARKS: usize = 0;
static mut PARKS: usize = 0;

fn q_len() -> usize {
    unsafe { QT - QH }
}

/// observation points of the receiver seen so far, and the (concrete) one at which the sender side acts:
/// 0 before the receiver's re-check pop, 1 right after that pop found nothing, 2 while the receiver is parked.
/// CONCRETE per harness (CBMC cannot cope with heap-changing events chosen symbolically).
static mut OBS: usize = 0;
static mut ENV_WHEN: usize = 0;

/// the pending sender-side action runs to completion here (real code), at most once
fn env_step() {
    unsafe {
        if IN_ENV {
            return;
        }
        let here = OBS;
        OBS += 1;
        if ENV_DONE || ENV_PENDING == 0 || here != ENV_WHEN {
            return;
        }
        IN_ENV = true;
        let q = &*INNER;
        if ENV_PENDING == 1 {
            let r = q.send(ENV_VALUE);
            assert!(r.is_ok(), "[C06.2-send-ok] send succeeds while the receiver is alive");
        } else {
            q.drop_chan();
        }
        ENV_DONE = true;
        IN_ENV = false;
    }
}

fn q_push_stub<T>(_q: &Queue<T>, v: T) {
    unsafe {
        assert!(std::mem::size_of::<T>() == 1);
        let b: u8 = std::mem::transmute_copy(&v);
        std::mem::forget(v);
        Q[QT] = b;
        QT += 1;
        PUSHES += 1;
    }
}

fn q_pop_stub<T>(_q: &Queue<T>) -> Option<T> {
    env_step();
    unsafe {
        if QH == QT {
            // the window between "looked and found nothing" and the receiver's next step
            // (a value that arrives in this window is NOT returned by this pop: the queue was empty when it looked)
            env_step();
            return None;
        }
        let b = Q[QH];
        QH += 1;
        Some(std::mem::transmute_copy(&b))
    }
}

fn to_wake_registered(q: &InnerQueue<u8>) -> bool {
    match q.to_wake.take() {
        Some(b) => {
            q.to_wake.store(b);
            true
        }
        None => false,
    }
}

/// fresh-blocker contract + the no-lost-wake-up obligation evaluated at the moment the receiver parks
fn park_stub(_b: &Blocker, t: Option<Duration>) -> Result<(), ParkError> {
    unsafe {
        let q = &*INNER;
        PARKS += 1;
        if UNPARKS == 0 {
            // nobody has unparked this blocker yet: whoever makes progress possible later must be able to find it
            assert!(to_wake_registered(q), "[C06.2-registered-before-park] the receiver parks without being registered: no sender can wake it");
            assert!(q_len() == 0, "[C06.2-no-lost-wakeup] the receiver parks although a value is queued and its sender has already looked for a waiter");
            assert!(q.channels.load(Ordering::Acquire) > 0, "[C07.1-no-lost-disconnect] the receiver parks although the last sender is gone and has already looked for a waiter");
        }
        // while parked
        env_step();
        let timed_out = t.is_some() && kani::any::<bool>();
        if UNPARKS > 0 {
            return Ok(());
        }
        if timed_out {
            return Err(ParkError::Timeout);
        }
        // nothing wakes it on this path: it sleeps (and no sender-side action is pending or it chose not to run)
        kani::assume(false);
        Ok(())
    }
}

fn unpark_stub(_b: &Blocker) {
    unsafe { UNPARKS += 1 };
}

fn setup(queued: usize, pending: u8) -> &'static InnerQueue<u8> {
    let q: &'static InnerQueue<u8> = Box::leak(Box::new(InnerQueue::new()));
    unsafe {
        INNER = q;
        QH = 0;
        QT = 0;
        PUSHES = 0;
        ENV_PENDING = pending;
        ENV_VALUE = kani::any();
        ENV_DONE = false;
        IN_ENV = false;
        UNPARKS = 0;
        PARKS = 0;
        OBS = 0;
        ENV_WHEN = 0;
        let mut i = 0;
        while i < queued {
            Q[QT] = 100 + i as u8;
            QT += 1;
            i += 1;
        }
    }
    q
}

fn recv_is_woken_by_send<const QUEUED: usize, const WHEN: usize>() {
    let queued: usize = QUEUED;
    let q = setup(queued, 1);
    unsafe { ENV_WHEN = WHEN };
    let timed: bool = kani::any();
    let r = q.recv(if timed { Some(Duration::from_millis(4)) } else { None });
    let sent = unsafe { ENV_DONE };
    let v = unsafe { ENV_VALUE };
    if queued == 1 {
        assert!(r == Ok(100), "[C06.2-oldest-first] recv returns the oldest queued value");
        assert!(unsafe { PARKS } == 0, "[C06.2-no-park-with-data] recv does not park while a value is queued");
        assert!(!to_wake_registered(q), "[C06.2-deregister] a receiver that does not park clears its registration");
    } else if sent {
        assert!(r == Ok(v), "[C06.2-delivered] once the send has happened recv returns exactly the value sent");
    } else {
        assert!(r == Err(TryRecvError::Empty) && timed, "[C06.2-empty-only-on-timeout] recv reports Empty only after a timed-out park with nothing sent");
    }
    assert!(unsafe { PUSHES } == if sent { 1 } else { 0 } && q_len() == if sent && queued == 1 { 1 } else { 0 }, "[C06.2-once] every value is in the channel or delivered exactly once");
}

//@ obligation: C06.2.0
//@ tier: thorough
//@ property: C06
//@ kind: K3
//@ complete: yes
//@ functions: mpsc::InnerQueue::recv, InnerQueue::try_recv, InnerQueue::send
//@ statement: variant [a value already queued]: recv (untimed and timed) with 0 or 1 value queued against ONE concurrent send executed at any of the receiver's observation points
//@ statement: (before its re-check, between the re-check and the park, while parked): the receiver never parks unregistered, never parks while a
//@ statement: value is queued whose sender is past its wake-up, and once the send has happened recv returns exactly the oldest value; a value that was
//@ statement: queued is returned without parking and the registration is cleared
#[kani::proof]
#[kani::stub(crate::scheduler::get_scheduler, sup::get_scheduler_stub)]
#[kani::stub(<crate::park::Park as std::ops::Drop>::drop, sup::park_drop_noop)]
#[kani::stub(may_queue::mpsc::Queue::push, q_push_stub)]
#[kani::stub(may_queue::mpsc::Queue::pop, q_pop_stub)]
#[kani::stub(crate::sync::blocking::Blocker::park, park_stub)]
#[kani::stub(crate::sync::blocking::Blocker::unpark, unpark_stub)]
#[kani::unwind(3)]
fn c06_2a_recv_is_woken_by_send_0() {
    recv_is_woken_by_send::<1, 0>();
}

//@ obligation: C06.2.1
//@ property: C06
//@ kind: K3
//@ complete: yes
//@ functions: mpsc::InnerQueue::recv, InnerQueue::try_recv, InnerQueue::send
//@ statement: variant [before the receiver's re-check of the queue]: recv (untimed and timed) with 0 or 1 value queued against ONE concurrent send executed at any of the receiver's observation points
//@ statement: (before its re-check, between the re-check and the park, while parked): the receiver never parks unregistered, never parks while a
//@ statement: value is queued whose sender is past its wake-up, and once the send has happened recv returns exactly the oldest value; a value that was
//@ statement: queued is returned without parking and the registration is cleared
#[kani::proof]
#[kani::stub(crate::scheduler::get_scheduler, sup::get_scheduler_stub)]
#[kani::stub(<crate::park::Park as std::ops::Drop>::drop, sup::park_drop_noop)]
#[kani::stub(may_queue::mpsc::Queue::push, q_push_stub)]
#[kani::stub(may_queue::mpsc::Queue::pop, q_pop_stub)]
#[kani::stub(crate::sync::blocking::Blocker::park, park_stub)]
#[kani::stub(crate::sync::blocking::Blocker::unpark, unpark_stub)]
#[kani::unwind(3)]
fn c06_2a_recv_is_woken_by_send_1() {
    recv_is_woken_by_send::<0, 0>();
}

//@ obligation: C06.2.2
//@ property: C06
//@ kind: K3
//@ complete: yes
//@ functions: mpsc::InnerQueue::recv, InnerQueue::try_recv, InnerQueue::send
//@ statement: variant [right after the re-check found nothing, before the receiver parks]: recv (untimed and timed) with 0 or 1 value queued against ONE concurrent send executed at any of the receiver's observation points
//@ statement: (before its re-check, between the re-check and the park, while parked): the receiver never parks unregistered, never parks while a
//@ statement: value is queued whose sender is past its wake-up, and once the send has happened recv returns exactly the oldest value; a value that was
//@ statement: queued is returned without parking and the registration is cleared
#[kani::proof]
#[kani::stub(crate::scheduler::get_scheduler, sup::get_scheduler_stub)]
#[kani::stub(<crate::park::Park as std::ops::Drop>::drop, sup::park_drop_noop)]
#[kani::stub(may_queue::mpsc::Queue::push, q_push_stub)]
#[kani::stub(may_queue::mpsc::Queue::pop, q_pop_stub)]
#[kani::stub(crate::sync::blocking::Blocker::park, park_stub)]
#[kani::stub(crate::sync::blocking::Blocker::unpark, unpark_stub)]
#[kani::unwind(3)]
fn c06_2a_recv_is_woken_by_send_2() {
    recv_is_woken_by_send::<0, 1>();
}

//@ obligation: C06.2.3
//@ tier: thorough
//@ property: C06
//@ mem: 30
//@ timeout: 900
//@ kind: K3
//@ complete: yes
//@ functions: mpsc::InnerQueue::recv, InnerQueue::try_recv, InnerQueue::send
//@ statement: variant [while the receiver is parked]: recv (untimed and timed) with 0 or 1 value queued against ONE concurrent send executed at any of the receiver's observation points
//@ statement: (before its re-check, between the re-check and the park, while parked): the receiver never parks unregistered, never parks while a
//@ statement: value is queued whose sender is past its wake-up, and once the send has happened recv returns exactly the oldest value; a value that was
//@ statement: queued is returned without parking and the registration is cleared
#[kani::proof]
#[kani::stub(crate::scheduler::get_scheduler, sup::get_scheduler_stub)]
#[kani::stub(<crate::park::Park as std::ops::Drop>::drop, sup::park_drop_noop)]
#[kani::stub(may_queue::mpsc::Queue::push, q_push_stub)]
#[kani::stub(may_queue::mpsc::Queue::pop, q_pop_stub)]
#[kani::stub(crate::sync::blocking::Blocker::park, park_stub)]
#[kani::stub(crate::sync::blocking::Blocker::unpark, unpark_stub)]
#[kani::unwind(3)]
fn c06_2a_recv_is_woken_by_send_3() {
    recv_is_woken_by_send::<0, 2>();
}


fn recv_observes_last_sender_drop<const QUEUED: usize, const WHEN: usize>() {
    let queued: usize = QUEUED;
    let q = setup(queued, 2);
    unsafe { ENV_WHEN = WHEN };
    let timed: bool = kani::any();
    let r = q.recv(if timed { Some(Duration::from_millis(4)) } else { None });
    let dropped = unsafe { ENV_DONE };
    if queued == 1 {
        assert!(r == Ok(100), "[C07.1-drain-first] a queued value is delivered before Disconnected is reported");
    } else if dropped {
        assert!(r == Err(TryRecvError::Disconnected), "[C07.1-disconnected] with the last sender gone and nothing queued recv reports Disconnected");
    } else {
        assert!(r == Err(TryRecvError::Empty) && timed, "[C07.1-empty-only-on-timeout] Empty only after a timed-out park while a sender is alive");
    }
    if r == Err(TryRecvError::Disconnected) {
        assert!(dropped && q_len() == 0, "[C07.1-disconnected-only-when-gone] Disconnected although a sender is alive or a value is still queued");
    }
    // afterwards: the next try_recv drains / reports the final state
    if dropped && queued == 1 {
        assert!(q.try_recv() == Err(TryRecvError::Disconnected), "[C07.1-then-disconnected] after draining the receiver gets Disconnected");
    }
    // leave the InnerQueue leaked (its Drop asserts channels == 0)
}

//@ obligation: C07.1.0
//@ tier: thorough
//@ property: C07
//@ kind: K3
//@ complete: yes
//@ functions: mpsc::InnerQueue::recv, InnerQueue::try_recv, InnerQueue::drop_chan
//@ statement: variant [a value already queued]: the same with the DROP OF THE LAST SENDER as the concurrent action and 0 or 1 value still queued: the receiver never parks once the
//@ statement: last sender is past its wake-up; it first drains the queued value and reports Disconnected only with an empty queue, after the drop
#[kani::proof]
#[kani::stub(crate::scheduler::get_scheduler, sup::get_scheduler_stub)]
#[kani::stub(<crate::park::Park as std::ops::Drop>::drop, sup::park_drop_noop)]
#[kani::stub(may_queue::mpsc::Queue::push, q_push_stub)]
#[kani::stub(may_queue::mpsc::Queue::pop, q_pop_stub)]
#[kani::stub(crate::sync::blocking::Blocker::park, park_stub)]
#[kani::stub(crate::sync::blocking::Blocker::unpark, unpark_stub)]
#[kani::unwind(3)]
fn c07_1a_recv_observes_last_sender_drop_0() {
    recv_observes_last_sender_drop::<1, 0>();
}

//@ obligation: C07.1.1
//@ property: C07
//@ kind: K3
//@ complete: yes
//@ functions: mpsc::InnerQueue::recv, InnerQueue::try_recv, InnerQueue::drop_chan
//@ statement: variant [before the receiver's re-check of the queue]: the same with the DROP OF THE LAST SENDER as the concurrent action and 0 or 1 value still queued: the receiver never parks once the
//@ statement: last sender is past its wake-up; it first drains the queued value and reports Disconnected only with an empty queue, after the drop
#[kani::proof]
#[kani::stub(crate::scheduler::get_scheduler, sup::get_scheduler_stub)]
#[kani::stub(<crate::park::Park as std::ops::Drop>::drop, sup::park_drop_noop)]
#[kani::stub(may_queue::mpsc::Queue::push, q_push_stub)]
#[kani::stub(may_queue::mpsc::Queue::pop, q_pop_stub)]
#[kani::stub(crate::sync::blocking::Blocker::park, park_stub)]
#[kani::stub(crate::sync::blocking::Blocker::unpark, unpark_stub)]
#[kani::unwind(3)]
fn c07_1a_recv_observes_last_sender_drop_1() {
    recv_observes_last_sender_drop::<0, 0>();
}

//@ obligation: C07.1.2
//@ property: C07
//@ kind: K3
//@ complete: yes
//@ functions: mpsc::InnerQueue::recv, InnerQueue::try_recv, InnerQueue::drop_chan
//@ statement: variant [right after the re-check found nothing, before the receiver parks]: the same with the DROP OF THE LAST SENDER as the concurrent action and 0 or 1 value still queued: the receiver never parks once the
//@ statement: last sender is past its wake-up; it first drains the queued value and reports Disconnected only with an empty queue, after the drop
#[kani::proof]
#[kani::stub(crate::scheduler::get_scheduler, sup::get_scheduler_stub)]
#[kani::stub(<crate::park::Park as std::ops::Drop>::drop, sup::park_drop_noop)]
#[kani::stub(may_queue::mpsc::Queue::push, q_push_stub)]
#[kani::stub(may_queue::mpsc::Queue::pop, q_pop_stub)]
#[kani::stub(crate::sync::blocking::Blocker::park, park_stub)]
#[kani::stub(crate::sync::blocking::Blocker::unpark, unpark_stub)]
#[kani::unwind(3)]
fn c07_1a_recv_observes_last_sender_drop_2() {
    recv_observes_last_sender_drop::<0, 1>();
}

//@ obligation: C07.1.3
//@ tier: thorough
//@ property: C07
//@ mem: 30
//@ timeout: 900
//@ kind: K3
//@ complete: yes
//@ functions: mpsc::InnerQueue::recv, InnerQueue::try_recv, InnerQueue::drop_chan
//@ statement: variant [while the receiver is parked]: the same with the DROP OF THE LAST SENDER as the concurrent action and 0 or 1 value still queued: the receiver never parks once the
//@ statement: last sender is past its wake-up; it first drains the queued value and reports Disconnected only with an empty queue, after the drop
#[kani::proof]
#[kani::stub(crate::scheduler::get_scheduler, sup::get_scheduler_stub)]
#[kani::stub(<crate::park::Park as std::ops::Drop>::drop, sup::park_drop_noop)]
#[kani::stub(may_queue::mpsc::Queue::push, q_push_stub)]
#[kani::stub(may_queue::mpsc::Queue::pop, q_pop_stub)]
#[kani::stub(crate::sync::blocking::Blocker::park, park_stub)]
#[kani::stub(crate::sync::blocking::Blocker::unpark, unpark_stub)]
#[kani::unwind(3)]
fn c07_1a_recv_observes_last_sender_drop_3() {
    recv_observes_last_sender_drop::<0, 2>();
}


//@ obligation: C07.1b
//@ property: C07
//@ kind: K3
//@ complete: yes
//@ functions: mpsc::InnerQueue::try_recv
//@ statement: try_recv with a send followed by the drop of the last sender slipping in between its first pop and its check of the sender count:
//@ statement: it re-pops after reading "no sender" and returns the value — Disconnected is never reported while a value is queued
#[kani::proof]
#[kani::stub(crate::scheduler::get_scheduler, sup::get_scheduler_stub)]
#[kani::stub(<crate::park::Park as std::ops::Drop>::drop, sup::park_drop_noop)]
#[kani::stub(may_queue::mpsc::Queue::push, q_push_stub)]
#[kani::stub(may_queue::mpsc::Queue::pop, pop_then_send_and_drop)]
#[kani::stub(crate::sync::blocking::Blocker::unpark, unpark_stub)]
#[kani::unwind(3)]
fn c07_1b_try_recv_drains_before_disconnected() {
    let q = setup(0, 0);
    unsafe { POP_CALLS = 0 };
    let r = q.try_recv();
    assert!(r == Ok(7), "[C07.1-drain-before-disconnected] try_recv reported Disconnected/Empty although a value was sent before the last sender left");
}

static mut POP_CALLS: usize = 0;
fn pop_then_send_and_drop<T>(_q: &Queue<T>) -> Option<T> {
    unsafe {
        POP_CALLS += 1;
        let r = if QH == QT {
            None
        } else {
            let b = Q[QH];
            QH += 1;
            Some(std::mem::transmute_copy(&b))
        };
        if POP_CALLS == 1 {
            // right after the first (empty) pop: the last sender sends 7 and goes away
            let q = &*INNER;
            assert!(q.send(7).is_ok());
            q.drop_chan();
        }
        r
    }
}

//@ obligation: C06.4a
//@ tier: thorough
//@ mem: 30
//@ timeout: 900
//@ property: C06
//@ kind: K2
//@ complete: yes
//@ functions: mpsc::InnerQueue::send, InnerQueue::drop_port, InnerQueue::clone_chan, InnerQueue::drop_chan
//@ statement: send pushes the value BEFORE it looks for a waiter and unparks a registered receiver exactly once; after the receiver is gone send
//@ statement: returns exactly the value and queues nothing; drop_port drains what is queued; only the drop of the LAST sender wakes the receiver
#[kani::proof]
#[kani::stub(crate::scheduler::get_scheduler, sup::get_scheduler_stub)]
#[kani::stub(<crate::park::Park as std::ops::Drop>::drop, sup::park_drop_noop)]
#[kani::stub(may_queue::mpsc::Queue::push, q_push_stub)]
#[kani::stub(may_queue::mpsc::Queue::pop, q_pop_stub)]
#[kani::stub(crate::sync::blocking::Blocker::unpark, unpark_checks_pushed)]
#[kani::unwind(4)]
fn c06_4a_send_and_sender_count() {
    let q = setup(0, 0);
    let v: u8 = kani::any();
    // no receiver registered: nobody to wake
    unsafe { EXPECT_QUEUED_AT_UNPARK = 1 };
    assert!(q.send(v).is_ok(), "[C06.4-send-ok] send succeeds while the receiver is alive");
    assert!(q_len() == 1 && unsafe { Q[QH] } == v, "[C06.4-queued] send queues exactly the value");
    assert!(unsafe { UNPARKS } == 0, "[C06.4-wake-once] send unparks the registered receiver exactly once");
    // a receiver is registered: the next send wakes it exactly once
    q.to_wake.store(Arc::new(Blocker::new(false)));
    unsafe { EXPECT_QUEUED_AT_UNPARK = 2 };
    assert!(q.send(v).is_ok(), "[C06.4-send-ok] send succeeds while the receiver is alive");
    assert!(unsafe { UNPARKS } == 1 && !to_wake_registered(q) && q_len() == 2, "[C06.4-wake-once] send unparks the registered receiver exactly once");
    // a second sender appears and leaves again: nobody is woken
    q.to_wake.store(Arc::new(Blocker::new(false)));
    let u0 = unsafe { UNPARKS };
    q.clone_chan();
    q.drop_chan();
    assert!(unsafe { UNPARKS } == u0 && to_wake_registered(q), "[C07.1-not-last] the drop of a sender that is not the last wakes nobody");
    unsafe { EXPECT_QUEUED_AT_UNPARK = 2 };
    q.drop_chan();
    assert!(unsafe { UNPARKS } == u0 + 1 && q.channels.load(Ordering::Acquire) == 0, "[C07.1-last-wakes] the drop of the last sender wakes the registered receiver");
    // receiver goes away
    q.drop_port();
    assert!(q_len() == 0, "[C07.4-drain] dropping the receiver drains the queued values");
    let w: u8 = kani::any();
    assert!(q.send(w) == Err(w) && q_len() == 0, "[C07.4-send-fails] after the receiver is gone send fails, returns exactly the value and queues nothing");
}

static mut EXPECT_QUEUED_AT_UNPARK: usize = 0;
fn unpark_checks_pushed(_b: &Blocker) {
    unsafe {
        UNPARKS += 1;
        assert!(q_len() >= EXPECT_QUEUED_AT_UNPARK, "[C06.4-push-before-wake] the receiver is woken before the value is in the queue (it would find nothing and park again)");
        assert!((*INNER).channels.load(Ordering::Acquire) == 0 || q_len() > 0, "[C07.1-count-before-wake] the receiver is woken by a sender drop before the sender count is updated");
    }
}

//@ obligation: C06.canary
//@ property: C06
//@ kind: K3
//@ canary: yes
//@ functions: mpsc::InnerQueue::recv
//@ statement: canary — claims recv never parks; must FAIL
#[kani::proof]
#[kani::stub(crate::scheduler::get_scheduler, sup::get_scheduler_stub)]
#[kani::stub(<crate::park::Park as std::ops::Drop>::drop, sup::park_drop_noop)]
#[kani::stub(may_queue::mpsc::Queue::push, q_push_stub)]
#[kani::stub(may_queue::mpsc::Queue::pop, q_pop_stub)]
#[kani::stub(crate::sync::blocking::Blocker::park, park_stub)]
#[kani::stub(crate::sync::blocking::Blocker::unpark, unpark_stub)]
#[kani::unwind(3)]
fn c06_canary() {
    let q = setup(0, 1);
    unsafe { ENV_WHEN = 2 };
    let _ = q.recv(None);
    assert!(unsafe { PARKS } == 0, "[C06.canary] canary (expected to fail)");
}
