//! White-box helpers for `cancel.rs` plus the cancel state machine obligations (C09.1).
//! Child module of `cancel.rs`.
//@ file-inject: src/cancel.rs
use super::*;
use crate::coroutine_impl::vk_support as sup;

impl<T: CancelIo> CancelImpl<T> {
    /// what `cancel()` does first: set the cancel bit
    pub(crate) fn vk_set_cancel_bit(&self) {
        self.state.fetch_or(1, Ordering::Release);
    }
    pub(crate) fn vk_state(&self) -> usize {
        self.state.load(Ordering::Acquire)
    }
    pub(crate) fn vk_set_state(&self, v: usize) {
        self.state.store(v, Ordering::Release);
    }
    pub(crate) fn vk_co_registered(&self) -> bool {
        match self.co.take() {
            Some(c) => {
                self.co.store(c);
                true
            }
            None => false,
        }
    }
}

/// contract of `CancelImpl::cancel` for callers that only need "the target is now cancelled": the cancel bit is set
/// (what the function does first); waking the target is C02.9 / C17.2b / C09's business
pub(crate) static mut CANCEL_CALLS: usize = 0;
pub(crate) unsafe fn cancel_contract_sets_bit<T: CancelIo>(this: &CancelImpl<T>) {
    CANCEL_CALLS += 1;
    this.vk_set_cancel_bit();
}

static mut PANICKING_NOW: bool = false;
fn panicking_stub() -> bool {
    unsafe { PANICKING_NOW }
}

//@ obligation: C09.1a
//@ property: C09
//@ kind: K1
//@ complete: yes
//@ functions: CancelImpl::new, CancelImpl::is_canceled, CancelImpl::is_disabled, CancelImpl::disable_cancel, CancelImpl::enable_cancel, CancelImpl::check_cancel, CancelImpl::clear_cancel_bit
//@ statement: cancel state machine over the cancel bit and every disable depth 0..=3: is_canceled iff the bit is set and cancel is not disabled;
//@ statement: is_disabled iff depth > 0; disable/enable are inverse and never touch the bit; check_cancel raises the cancel panic iff is_canceled and the
//@ statement: thread is not already panicking, and consumes the passed-in result first in every cancelled case; a coroutine whose bit was never set
//@ statement: never sees the panic; clear_cancel_bit clears only the bit
#[kani::proof]
#[kani::stub(crate::scheduler::get_scheduler, sup::get_scheduler_stub)]
#[kani::stub(<crate::park::Park as std::ops::Drop>::drop, sup::park_drop_noop)]
#[kani::stub(crate::cancel::trigger_cancel_panic, sup::cancel_panic_stub)]
#[kani::stub(std::thread::panicking, panicking_stub)]
#[kani::unwind(5)]
fn c09_1a_cancel_state_machine() {
    let h = sup::enter_coroutine();
    let c = sup::cancel_of(h);
    assert!(!c.is_canceled() && !c.is_disabled() && c.vk_state() == 0, "[C09.1-fresh] a fresh coroutine is neither cancelled nor cancel-disabled");
    let depth: usize = kani::any();
    kani::assume(depth <= 3);
    let bit: bool = kani::any();
    let mut i = 0;
    while i < 3 {
        if i < depth {
            c.disable_cancel();
        }
        i += 1;
    }
    if bit {
        c.vk_set_cancel_bit();
    }
    assert!(c.is_canceled() == (bit && depth == 0), "[C09.1-is-canceled] is_canceled iff the cancel bit is set and cancel is not disabled");
    assert!(c.is_disabled() == (depth > 0), "[C09.1-is-disabled] is_disabled iff a disable is outstanding");
    // check_cancel
    let panicking: bool = kani::any();
    let pending: bool = kani::any();
    unsafe {
        PANICKING_NOW = panicking;
        EXPECT_PANIC = bit && depth == 0 && !panicking;
        sup::ON_CANCEL_PANIC = Some(at_cancel_panic);
    }
    if pending {
        sup::set_current_para(Some(std::io::Error::from(std::io::ErrorKind::Other)));
    }
    c.check_cancel();
    // returned: no panic was raised
    assert!(!(bit && depth == 0 && !panicking), "[C09.1-panics-when-cancelled] check_cancel must raise the cancel panic for a cancelled coroutine");
    if bit && depth == 0 {
        assert!(!sup::current_para_is_some(), "[C09.1-consumes-result] check_cancel consumes the passed-in result of a cancelled coroutine even when it does not panic");
    } else {
        assert!(sup::current_para_is_some() == pending, "[C09.1-leaves-result] check_cancel leaves the passed-in result alone when the coroutine is not cancelled");
    }
    // enable again
    let mut i = 0;
    while i < 3 {
        if i < depth {
            c.enable_cancel();
        }
        i += 1;
    }
    assert!(c.vk_state() == if bit { 1 } else { 0 }, "[C09.1-disable-enable-inverse] disable/enable are inverse and do not touch the cancel bit");
    c.clear_cancel_bit();
    assert!(c.vk_state() == 0 && !c.is_canceled(), "[C09.1-clear-bit] clear_cancel_bit clears the bit");
    kani::cover!(bit && depth > 0, "cancelled while disabled");
    sup::leave_coroutine();
}

static mut EXPECT_PANIC: bool = false;
fn at_cancel_panic() {
    kani::cover!(true, "cancel panic raised");
    assert!(unsafe { EXPECT_PANIC }, "[C09.1-no-spurious-panic] the cancel panic is raised for a coroutine that is not cancelled, has cancel disabled, or is already unwinding");
    assert!(!sup::current_para_is_some(), "[C09.1-consumes-result-before-panic] the passed-in result is consumed before the cancel panic (it must not leak into the next coroutine on this stack)");
}
