//! White-box helpers for `cancel.rs` plus the cancel state machine obligations (C09.1).
//! Child module of `cancel.rs`.
//@ file-inject: src/cancel.rs
use super::*;
use crate::coroutine_impl::vk_support as sup;

impl<T: CancelIo> CancelImpl<T> {
    /// what `cancel()` does first: set the cancel bit
    pub(crate) fn vk_set_cancel_bit(&self) {
        self.state.fetch_or(1, Ordering::Release);
    }
    pub(crate) fn vk_state(&self) -> usize {
        self.state.load(Ordering::Acquire)
    }
    pub(crate) fn vk_set_state(&self, v: usize) {
        self.state.store(v, Ordering::Release);
    }
    pub(crate) fn vk_co_registered(&self) -> bool {
        match self.co.take() {
            Some(c) => {
                self.co.store(c);
                true
            }
            None => false,
        }
    }
}
