//! C06 / C07 (mpmc channel): receivers pop only after acquiring a permit; send pushes before it posts; after the
//! last sender is gone every receiver drains and gets Disconnected — and the "disconnected" permit must be STICKY,
//! because a receiver that already passed its try_recv goes on to block on the semaphore.
//! Child module of `sync/mpmc.rs`. The real Semphore is used (its blocking wait replaced by its contract, C10);
//! crossbeam's SegQueue by the abstract FIFO.
//@ file-needs: blk c10
//@ file-inject: src/sync/mpmc.rs
//@ file-property: C06 C07
use super::*;
use crate::coroutine_impl::vk_support as sup;

static mut INNER: *const InnerQueue<u8> = std::ptr::null();
static mut WAITS: usize = 0;
static mut QLEN_AT_POST: usize = 0;
static mut POSTS: usize = 0;

/// contract of a blocking `Semphore::wait_timeout_impl` that returns true (C10): one permit was consumed.
/// Here the permit is the one the environment makes available while the receiver is blocked.
fn sem_wait_contract(s: &Semphore, dur: Option<Duration>) -> bool {
    unsafe { WAITS += 1 };
    if s.try_wait() {
        return true;
    }
    // blocked: the environment (drop of the last sender) provides the permit, or the wait times out
    if dur.is_some() && kani::any() {
        return false;
    }
    unsafe {
        let q = &*INNER;
        if ENV_LAST_SENDER_DROPS {
            ENV_LAST_SENDER_DROPS = false;
            q.drop_tx();
        }
    }
    kani::assume(s.try_wait());
    true
}
static mut ENV_LAST_SENDER_DROPS: bool = false;

fn setup() -> &'static InnerQueue<u8> {
    sup::gq_reset();
    let q: &'static InnerQueue<u8> = Box::leak(Box::new(InnerQueue::new()));
    unsafe {
        INNER = q;
        WAITS = 0;
        ENV_LAST_SENDER_DROPS = false;
    }
    q
}

fn disconnect_permit_is_sticky<const N: u8, const USE_RECV: bool>() {
    let q = setup();
    let n: u8 = N;
    if n >= 1 {
        assert!(q.send(11).is_ok());
    }
    if n >= 2 {
        assert!(q.send(12).is_ok());
    }
    q.drop_tx();
    assert!(q.sem.get_value() >= 1, "[C07.3-drop-posts] the drop of the last sender leaves a permit for the receivers");
    let use_recv: bool = USE_RECV;
    let mut i = 0u8;
    while i < n {
        let r = if use_recv { q.recv(None).map_err(|_| ()) } else { q.try_recv().map_err(|_| ()) };
        assert!(r == Ok(11 + i), "[C07.3-drain-first] queued values are delivered in order before Disconnected");
        i += 1;
    }
    // first disconnected receive
    if use_recv {
        assert!(q.recv(None) == Err(RecvTimeoutError::Disconnected), "[C07.3-disconnected] with the last sender gone and nothing queued the receiver gets Disconnected");
    } else {
        assert!(q.try_recv() == Err(TryRecvError::Disconnected), "[C07.3-disconnected] with the last sender gone and nothing queued the receiver gets Disconnected");
    }
    assert!(q.sem.get_value() >= 1, "[C07.3-sticky-permit] a receive that returned Disconnected consumed the last permit: another receiver that is about to block on the semaphore sleeps forever");
    // the other receiver, past its try_recv, now blocks on the semaphore: it must get through and see Disconnected
    assert!(q.recv(None) == Err(RecvTimeoutError::Disconnected), "[C07.3-second-receiver] a second receiver also gets Disconnected");
    assert!(q.sem.get_value() >= 1, "[C07.3-sticky-permit] a receive that returned Disconnected consumed the last permit: another receiver that is about to block on the semaphore sleeps forever");
}


//@ obligation: C07.3.0
//@ property: C07
//@ kind: K2
//@ complete: yes
//@ functions: mpmc::InnerQueue::try_recv, InnerQueue::recv, InnerQueue::drop_tx, InnerQueue::send
//@ statement: after the last sender is gone (0 value(s) still queued, receives through try_recv): every try_recv / recv first drains the queued values in order and then returns
//@ statement: Disconnected, and EVERY receive that returns Disconnected leaves at least one permit in the semaphore — so a second receiver that
//@ statement: already passed its own try_recv and is about to block on the semaphore still gets through (it cannot be stranded)
#[kani::proof]
#[kani::stub(crate::scheduler::get_scheduler, sup::get_scheduler_stub)]
#[kani::stub(<crate::park::Park as std::ops::Drop>::drop, sup::park_drop_noop)]
#[kani::stub(crossbeam::queue::SegQueue::push, sup::seg_push_stub)]
#[kani::stub(crossbeam::queue::SegQueue::pop, sup::seg_pop_stub)]
#[kani::stub(crate::sync::semphore::Semphore::wait_timeout_impl, sem_wait_contract)]
#[kani::unwind(5)]
fn c07_3_sticky_n0_try() {
    disconnect_permit_is_sticky::<0, false>();
}

//@ obligation: C07.3.1
//@ tier: thorough
//@ property: C07
//@ kind: K2
//@ complete: yes
//@ functions: mpmc::InnerQueue::try_recv, InnerQueue::recv, InnerQueue::drop_tx, InnerQueue::send
//@ statement: after the last sender is gone (0 value(s) still queued, receives through recv): every try_recv / recv first drains the queued values in order and then returns
//@ statement: Disconnected, and EVERY receive that returns Disconnected leaves at least one permit in the semaphore — so a second receiver that
//@ statement: already passed its own try_recv and is about to block on the semaphore still gets through (it cannot be stranded)
#[kani::proof]
#[kani::stub(crate::scheduler::get_scheduler, sup::get_scheduler_stub)]
#[kani::stub(<crate::park::Park as std::ops::Drop>::drop, sup::park_drop_noop)]
#[kani::stub(crossbeam::queue::SegQueue::push, sup::seg_push_stub)]
#[kani::stub(crossbeam::queue::SegQueue::pop, sup::seg_pop_stub)]
#[kani::stub(crate::sync::semphore::Semphore::wait_timeout_impl, sem_wait_contract)]
#[kani::unwind(5)]
fn c07_3_sticky_n0_recv() {
    disconnect_permit_is_sticky::<0, true>();
}

//@ obligation: C07.3.2
//@ property: C07
//@ kind: K2
//@ complete: yes
//@ functions: mpmc::InnerQueue::try_recv, InnerQueue::recv, InnerQueue::drop_tx, InnerQueue::send
//@ statement: after the last sender is gone (1 value(s) still queued, receives through try_recv): every try_recv / recv first drains the queued values in order and then returns
//@ statement: Disconnected, and EVERY receive that returns Disconnected leaves at least one permit in the semaphore — so a second receiver that
//@ statement: already passed its own try_recv and is about to block on the semaphore still gets through (it cannot be stranded)
#[kani::proof]
#[kani::stub(crate::scheduler::get_scheduler, sup::get_scheduler_stub)]
#[kani::stub(<crate::park::Park as std::ops::Drop>::drop, sup::park_drop_noop)]
#[kani::stub(crossbeam::queue::SegQueue::push, sup::seg_push_stub)]
#[kani::stub(crossbeam::queue::SegQueue::pop, sup::seg_pop_stub)]
#[kani::stub(crate::sync::semphore::Semphore::wait_timeout_impl, sem_wait_contract)]
#[kani::unwind(5)]
fn c07_3_sticky_n1_try() {
    disconnect_permit_is_sticky::<1, false>();
}

//@ obligation: C07.3.3
//@ tier: thorough
//@ property: C07
//@ kind: K2
//@ complete: yes
//@ functions: mpmc::InnerQueue::try_recv, InnerQueue::recv, InnerQueue::drop_tx, InnerQueue::send
//@ statement: after the last sender is gone (2 value(s) still queued, receives through recv): every try_recv / recv first drains the queued values in order and then returns
//@ statement: Disconnected, and EVERY receive that returns Disconnected leaves at least one permit in the semaphore — so a second receiver that
//@ statement: already passed its own try_recv and is about to block on the semaphore still gets through (it cannot be stranded)
#[kani::proof]
#[kani::stub(crate::scheduler::get_scheduler, sup::get_scheduler_stub)]
#[kani::stub(<crate::park::Park as std::ops::Drop>::drop, sup::park_drop_noop)]
#[kani::stub(crossbeam::queue::SegQueue::push, sup::seg_push_stub)]
#[kani::stub(crossbeam::queue::SegQueue::pop, sup::seg_pop_stub)]
#[kani::stub(crate::sync::semphore::Semphore::wait_timeout_impl, sem_wait_contract)]
#[kani::unwind(5)]
fn c07_3_sticky_n2_recv() {
    disconnect_permit_is_sticky::<2, true>();
}

//@ obligation: C06.5a
//@ property: C06
//@ kind: K3
//@ complete: yes
//@ functions: mpmc::InnerQueue::send, InnerQueue::try_recv, InnerQueue::recv, InnerQueue::drop_rx
//@ statement: send makes the value available (queue) BEFORE it posts the permit; a receiver pops only after acquiring a permit, so with k sends the
//@ statement: k-th receive gets the k-th value and a further try_recv reports Empty; the last sender dropping while a receiver is blocked wakes it with
//@ statement: Disconnected; after the last receiver is gone send returns exactly the value and the queued values are dropped
#[kani::proof]
#[kani::stub(crate::scheduler::get_scheduler, sup::get_scheduler_stub)]
#[kani::stub(<crate::park::Park as std::ops::Drop>::drop, sup::park_drop_noop)]
#[kani::stub(crossbeam::queue::SegQueue::push, sup::seg_push_stub)]
#[kani::stub(crossbeam::queue::SegQueue::pop, sup::seg_pop_stub)]
#[kani::stub(crate::sync::semphore::Semphore::wait_timeout_impl, sem_wait_contract)]
#[kani::stub(crate::sync::semphore::Semphore::post, post_checks_queue)]
#[kani::unwind(5)]
fn c06_5a_mpmc_send_recv_order() {
    let q = setup();
    unsafe {
        POSTS = 0;
        QLEN_AT_POST = 0;
    }
    let a: u8 = kani::any();
    let b: u8 = kani::any();
    assert!(q.try_recv() == Err(TryRecvError::Empty), "[C06.5-empty] an empty channel with a live sender reports Empty");
    assert!(q.send(a).is_ok());
    assert!(unsafe { POSTS } == 1 && unsafe { QLEN_AT_POST } == 1, "[C06.5-push-before-post] the permit is posted before the value is in the queue (a receiver would find no data)");
    assert!(q.send(b).is_ok());
    assert!(q.sem.get_value() == 2, "[C06.5-one-permit-per-value] every send posts exactly one permit");
    assert!(q.try_recv() == Ok(a), "[C06.5-fifo] values are received in the order sent");
    assert!(q.recv(None) == Ok(b), "[C06.5-fifo] values are received in the order sent");
    assert!(q.try_recv() == Err(TryRecvError::Empty) && q.sem.get_value() == 0, "[C06.5-once] no value is received twice");
    // a blocked receiver and the last sender leaving
    unsafe { ENV_LAST_SENDER_DROPS = true };
    assert!(q.recv(None) == Err(RecvTimeoutError::Disconnected), "[C07.3-blocked-receiver-woken] the drop of the last sender wakes a blocked receiver with Disconnected");
    // receivers gone
    q.clone_tx();
    assert!(q.send(b).is_ok());
    q.drop_rx();
    assert!(sup::gq_len() == 0, "[C07.4-drain] dropping the last receiver drops the queued values");
    assert!(q.send(a).map_err(|e| e.0) == Err(a), "[C07.4-send-fails] after the last receiver is gone send returns exactly the value");
}

fn post_checks_queue(s: &Semphore) {
    unsafe {
        POSTS += 1;
        QLEN_AT_POST = sup::gq_len();
    }
    crate::sync::semphore::vk_c10::real_post(s);
}
