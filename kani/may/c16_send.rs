//! C16 — `EventSender::send`, the seam between the top half and the bottom half of a select arm: a pending cancel aborts
//! the arm BEFORE the event is handed over (the top half never completes), but once the event has been handed over and
//! consumed, the arm goes on into its bottom half even if it was cancelled while the event was queued (`Cqueue::drop` and
//! `Selector::remove` cancel arms whose event is still queued). Child module of `cqueue.rs`.
//! `yield_with` is replaced by its contract: the suspension, then — as in the real function — `resource.yield_back(cancel)`
//! with the REAL `yield_back` of the event source (static dispatch).
//@ file-needs: cz
//@ file-inject: src/cqueue.rs
//@ file-mirror: src/yield_now.rs :: co_yield_with(es); resource.yield_back(cancel); cancel.clear();
//@ file-property: C16
use super::*;
use crate::coroutine_impl::vk_support as sup;

static mut YIELDS: usize = 0;
static mut EXTRA: *const AtomicUsize = std::ptr::null();
static mut EXTRA_AT_YIELD: usize = usize::MAX;
static mut CANCEL_WHILE_QUEUED: bool = false;
static mut STAGE: u8 = 0;

fn yield_with_contract<T: EventSource>(r: &T) {
    unsafe {
        YIELDS += 1;
        EXTRA_AT_YIELD = (*EXTRA).load(Ordering::Relaxed);
        // suspended: the event is queued, a poller consumes it and resumes the coroutine (continue_bottom)
        STAGE = 1;
        let cancel = crate::coroutine_impl::current_cancel_data();
        if CANCEL_WHILE_QUEUED {
            cancel.vk_set_cancel_bit();
        }
        // what the real yield_with does after the resume
        r.yield_back(cancel);
    }
}

fn on_cancel_panic() {
    unsafe {
        assert!(STAGE == 0, "[C16.5-bottom-half-after-consume] the arm is aborted by a cancel AFTER its event was handed over and consumed: poll returned an event whose bottom half never runs (and whatever the top half took is lost)");
    }
}

fn send_from<const CANCELLED_AT_ENTRY: bool, const CANCELLED_WHILE_QUEUED: bool>() {
    sup::trace_reset();
    sup::scheduler_reset();
    let h = sup::enter_coroutine();
    let cq: &'static Cqueue = Box::leak(Box::new(Cqueue {
        ev_queue: unsafe { std::mem::MaybeUninit::zeroed().assume_init() },
        to_wake: AtomicOption::none(),
        cnt: AtomicUsize::new(1),
        selectors: Mutex::new(Vec::new()),
        total: AtomicUsize::new(1),
        is_panicking: AtomicBool::new(false),
    }));
    let sender = EventSender { id: 0, token: 5, extra: AtomicUsize::new(0), cqueue: cq };
    let extra: usize = kani::any();
    unsafe {
        YIELDS = 0;
        STAGE = 0;
        EXTRA = &sender.extra;
        EXTRA_AT_YIELD = usize::MAX;
        CANCEL_WHILE_QUEUED = CANCELLED_WHILE_QUEUED;
        sup::ON_CANCEL_PANIC = Some(on_cancel_panic);
    }
    if CANCELLED_AT_ENTRY {
        sup::cancel_of(h).vk_set_cancel_bit();
    }
    sender.send(extra);
    // send returned normally
    assert!(!CANCELLED_AT_ENTRY, "[C16.5-cancel-before-hand-over] a select arm that is already cancelled when it reaches send must not hand over an event (its top half was aborted)");
    assert!(unsafe { YIELDS } == 1, "[C16.5-one-event] send hands over exactly one event");
    assert!(unsafe { EXTRA_AT_YIELD } == extra, "[C16.5-extra-before-yield] the extra data is stored before the event is handed over");
    std::mem::forget(sender);
    unsafe { sup::ON_CANCEL_PANIC = None };
    sup::leave_coroutine();
}

//@ obligation: C16.5a
//@ property: C16
//@ kind: K3
//@ complete: yes
//@ functions: EventSender::send, EventSender::yield_back
//@ statement: variant [not cancelled]: send stores the extra data, hands over exactly one event and returns into the bottom half
#[kani::proof]
#[kani::stub(crate::scheduler::get_scheduler, sup::get_scheduler_stub)]
#[kani::stub(<crate::park::Park as std::ops::Drop>::drop, sup::park_drop_noop)]
#[kani::stub(crate::yield_now::yield_with, yield_with_contract)]
#[kani::stub(crate::cancel::trigger_cancel_panic, sup::cancel_panic_stub)]
#[kani::unwind(3)]
fn c16_5a_send_plain() {
    send_from::<false, false>();
}

//@ obligation: C16.5b
//@ property: C16 C09
//@ kind: K3
//@ complete: yes
//@ functions: EventSender::send, EventSender::yield_back
//@ statement: variant [cancelled while the event was queued — what Cqueue::drop and Selector::remove do]: the event was handed over and consumed, so the arm
//@ statement: is NOT aborted between its halves: send returns into the bottom half (the cancel is delivered at the arm's next cancellation point)
#[kani::proof]
#[kani::stub(crate::scheduler::get_scheduler, sup::get_scheduler_stub)]
#[kani::stub(<crate::park::Park as std::ops::Drop>::drop, sup::park_drop_noop)]
#[kani::stub(crate::yield_now::yield_with, yield_with_contract)]
#[kani::stub(crate::cancel::trigger_cancel_panic, sup::cancel_panic_stub)]
#[kani::unwind(3)]
fn c16_5b_send_cancelled_while_queued() {
    send_from::<false, true>();
}

//@ obligation: C16.5c
//@ property: C16 C09
//@ kind: K3
//@ complete: yes
//@ functions: EventSender::send
//@ statement: variant [already cancelled when the arm reaches send]: the cancel panic is raised before any event is handed over (the path that returns
//@ statement: normally is unreachable)
#[kani::proof]
#[kani::stub(crate::scheduler::get_scheduler, sup::get_scheduler_stub)]
#[kani::stub(<crate::park::Park as std::ops::Drop>::drop, sup::park_drop_noop)]
#[kani::stub(crate::yield_now::yield_with, yield_with_contract)]
#[kani::stub(crate::cancel::trigger_cancel_panic, sup::cancel_panic_stub)]
#[kani::unwind(3)]
fn c16_5c_send_cancelled_at_entry() {
    send_from::<true, false>();
}
