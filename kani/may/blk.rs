//! Environment model for `SyncBlocker`, injected as a child module of `sync/blocking.rs` (white box).
//!
//! Every lock-like primitive of `may` waits on a `SyncBlocker` and — when the wait is aborted by a
//! time-out or a cancellation — must pass on a wake-up (lock hand-off, permit, notification) that raced
//! with the abort. The race is between the waiter's abort sequence and the waker's
//! `w.unpark(); if w.take_release() { forward }`. Kani has no threads; instead ONE concurrent waker is
//! modelled as a three-step state machine (the exact atomic steps of the real `SyncBlocker::unpark` and
//! `take_release`, which C02.7 checks against the real functions), and the stubs below let it advance
//! by any number of steps before every shared-memory operation of the waiter. This enumerates every
//! interleaving of one waker with the real waiter code, under sequential consistency.
//@ file-inject: src/sync/blocking.rs
use super::*;

/// is there a waker at all (i.e. is the token ever delivered)?
pub(crate) static mut WAKER_EXISTS: bool = false;
/// 0: not started, 1: `blocker.unpark()` done (park token delivered), 2: `unparked := true` done,
/// 3: `take_release()` done (and forwarded iff it returned true)
pub(crate) static mut WAKER_PC: u8 = 0;
pub(crate) static mut WAKER_FORWARDED: bool = false;
pub(crate) static mut UNDER_TEST: *const SyncBlocker = std::ptr::null();
/// may the abstract park report a cancellation / a time-out?
pub(crate) static mut MAY_CANCEL: bool = false;
pub(crate) static mut MAY_TIMEOUT: bool = false;
/// how many more abstract parks are explored (bounds retry loops; the path is cut beyond it)
pub(crate) static mut PARK_BUDGET: usize = 2;
pub(crate) static mut PARKS: usize = 0;
/// result of the most recent abstract park: 0 Ok, 1 Timeout, 2 Canceled
pub(crate) static mut PARK_LAST: u8 = 0;
/// the waiter has read `unparked == true`: from now on it owns what was handed over and must not wait again
pub(crate) static mut OBSERVED_UNPARKED: bool = false;

pub(crate) fn env_reset(waker_exists: bool, may_cancel: bool, may_timeout: bool, budget: usize) {
    unsafe {
        WAKER_EXISTS = waker_exists;
        WAKER_PC = 0;
        WAKER_FORWARDED = false;
        UNDER_TEST = std::ptr::null();
        MAY_CANCEL = may_cancel;
        MAY_TIMEOUT = may_timeout;
        PARK_BUDGET = budget;
        PARKS = 0;
        PARK_LAST = 0;
        OBSERVED_UNPARKED = false;
    }
}

fn waker_micro_step() {
    unsafe {
        let b = &*UNDER_TEST;
        match WAKER_PC {
            0 => WAKER_PC = 1, // blocker.unpark(): the park token is delivered
            1 => {
                b.unparked.store(true, Ordering::Release);
                WAKER_PC = 2;
            }
            2 => {
                if b.release.swap(false, Ordering::Acquire) {
                    WAKER_FORWARDED = true;
                }
                WAKER_PC = 3;
            }
            _ => {}
        }
    }
}

/// the waker advances by 0..=3 of its atomic steps
pub(crate) fn env_step() {
    unsafe {
        if !WAKER_EXISTS || UNDER_TEST.is_null() {
            return;
        }
    }
    let mut i = 0;
    while i < 3 {
        if unsafe { WAKER_PC } < 3 && kani::any() {
            waker_micro_step();
        }
        i += 1;
    }
}

/// the waker runs to completion (both parties have finished when the accounting is evaluated)
pub(crate) fn env_finish() {
    unsafe {
        if !WAKER_EXISTS || UNDER_TEST.is_null() {
            return;
        }
    }
    let mut i = 0;
    while i < 3 {
        if unsafe { WAKER_PC } < 3 {
            waker_micro_step();
        }
        i += 1;
    }
}

pub(crate) fn token_delivered() -> bool {
    unsafe { WAKER_EXISTS && WAKER_PC >= 1 }
}

// ---- stubs for the SyncBlocker methods used by the waiter (each = environment step + the real one-line body) ----

pub(crate) fn current_env() -> Arc<SyncBlocker> {
    let blocker = Blocker::new(true);
    let a = Arc::new(SyncBlocker {
        unparked: AtomicBool::new(false),
        release: AtomicBool::new(false),
        blocker,
    });
    unsafe { UNDER_TEST = Arc::as_ptr(&a) };
    a
}

pub(crate) fn is_unparked_env(b: &SyncBlocker) -> bool {
    env_step();
    let r = b.unparked.load(Ordering::Acquire);
    if r {
        unsafe { OBSERVED_UNPARKED = true };
    }
    r
}

pub(crate) fn set_release_env(b: &SyncBlocker) {
    env_step();
    b.release.store(true, Ordering::Release);
}

pub(crate) fn take_release_env(b: &SyncBlocker) -> bool {
    env_step();
    b.release.swap(false, Ordering::Acquire)
}

/// Abstract `SyncBlocker::park` (contract of a fresh blocker, C02): Ok only if the park token was
/// delivered; Timeout only with a time-out (and if the harness allows it); Canceled only if allowed.
pub(crate) fn park_env(b: &SyncBlocker, timeout: Option<Duration>) -> Result<(), ParkError> {
    assert!(!unsafe { OBSERVED_UNPARKED }, "[C09.4-no-wait-after-handoff-seen] the waiter parks again after it has seen that the wake-up was delivered to it: the token is used up, nobody will wake it and it sits on what it was given");
    env_step();
    unsafe {
        if PARK_BUDGET == 0 {
            kani::assume(false);
        }
        PARK_BUDGET -= 1;
        PARKS += 1;
    }
    let r: u8 = kani::any();
    kani::assume(r <= 2);
    kani::assume(r != 0 || token_delivered());
    kani::assume(r != 1 || (timeout.is_some() && unsafe { MAY_TIMEOUT }));
    kani::assume(r != 2 || unsafe { MAY_CANCEL });
    unsafe { PARK_LAST = r };
    match r {
        0 => Ok(()),
        1 => Err(ParkError::Timeout),
        _ => Err(ParkError::Canceled),
    }
}

//@ obligation: C02.7
//@ property: C02 C05 C09 C10 C11 C12
//@ kind: K1
//@ complete: yes
//@ functions: SyncBlocker::current, SyncBlocker::is_unparked, SyncBlocker::set_release, SyncBlocker::take_release, SyncBlocker::unpark
//@ statement: the real SyncBlocker methods are exactly the atomic steps the environment model uses: current() starts with unparked = release = false;
//@ statement: is_unparked reads unparked; set_release sets release; take_release swaps release to false and returns the old value;
//@ statement: unpark delivers the park token first and sets unparked afterwards
#[kani::proof]
#[kani::stub(<crate::park::Park as std::ops::Drop>::drop, crate::coroutine_impl::vk_support::park_drop_noop)]
#[kani::stub(crate::scheduler::get_scheduler, crate::coroutine_impl::vk_support::get_scheduler_stub)]
#[kani::stub(crate::sync::blocking::Blocker::unpark, blocker_unpark_probe)]
#[kani::unwind(3)]
fn c02_7_sync_blocker_steps() {
    let b = SyncBlocker::current();
    assert!(!b.is_unparked() && !b.release.load(Ordering::Acquire), "[C02.7-fresh] a fresh SyncBlocker is neither unparked nor released");
    b.set_release();
    assert!(b.release.load(Ordering::Acquire) && !b.is_unparked(), "[C02.7-set-release] set_release sets only the release flag");
    assert!(b.take_release(), "[C02.7-take-release] take_release returns the flag");
    assert!(!b.release.load(Ordering::Acquire) && !b.take_release(), "[C02.7-take-clears] take_release clears the flag");
    unsafe {
        PROBE_TARGET = &*b;
        PROBE_CALLS = 0;
    }
    b.unpark();
    assert!(unsafe { PROBE_CALLS } == 1, "[C02.7-unpark-token] unpark delivers the park token exactly once");
    assert!(b.is_unparked(), "[C02.7-unpark-flag] unpark sets the unparked flag");
}

static mut PROBE_TARGET: *const SyncBlocker = std::ptr::null();
static mut PROBE_CALLS: usize = 0;

fn blocker_unpark_probe(_b: &Blocker) {
    unsafe {
        PROBE_CALLS += 1;
        // the token is delivered before the flag becomes visible
        assert!(!(*PROBE_TARGET).unparked.load(Ordering::Acquire), "[C02.7-token-before-flag] the park token is delivered before unparked is set");
    }
}
