//! C18 — `Selector::del_fd` (run when an `IoData` is dropped, e.g. by the unwinding of a coroutine that was cancelled while
//! blocked in timed I/O): an I/O timer that is still armed is DISARMED (its back pointer nulled) — the newest entry of a
//! timer list cannot be unlinked, so it stays until it expires and by then the EventData may be freed or reused by another
//! socket; the fd leaves the epoll set; the EventData is parked in the free list until the next epoll_wait.
//! Child module of `io/sys/unix/epoll.rs` (module `io::sys::select`). Kernel and queue are replaced by stubs.
//@ file-needs: cz tl iosup
//@ file-inject: src/io/sys/unix/epoll.rs
//@ file-modpath: io::sys::select
//@ file-property: C18
use super::*;
use crate::coroutine_impl::vk_support as sup;
use crate::coroutine_impl::CoroutineImpl;
use crate::io::sys::vk_iosup as ios;
use crate::timeout_list::vk_tl as tl;
use may_queue::mpsc_list_v1::Queue as TimeoutQueue;

static mut DELETES: usize = 0;
static mut DELETED_FD: i32 = -1;
static mut FREED: usize = 0;

fn epoll_delete_stub<Fd: std::os::fd::AsFd>(_e: &Epoll, fd: Fd) -> nix::Result<()> {
    unsafe {
        DELETES += 1;
        DELETED_FD = std::os::fd::AsRawFd::as_raw_fd(&fd.as_fd());
    }
    Ok(())
}
fn free_push_stub<T>(_q: &Queue<T>, v: T) {
    unsafe { FREED += 1 };
    std::mem::forget(v);
}

fn mk_selector() -> &'static Selector {
    unsafe {
        let p = Box::into_raw(Box::<Selector>::new_uninit()) as *mut Selector;
        std::ptr::addr_of_mut!((*p).vec).write(SmallVec::new());
        (*p).vec.set_len(2);
        &*p
    }
}

fn del_fd_from<const ARMED: bool>() {
    sup::trace_reset();
    sup::scheduler_reset();
    let sel = mk_selector();
    let io = ios::mk_io();
    let armed: bool = ARMED;
    let q: &'static TimeoutQueue<crate::timeout_list::TimeoutData<super::super::TimerData>> = Box::leak(Box::new(TimeoutQueue::new()));
    if armed {
        // the newest entry of its list: it cannot be unlinked
        let (h, _) = q.push(tl::mk_timeout_data(io.timer_data()));
        io.timer.borrow_mut().replace(h);
    }
    unsafe {
        DELETES = 0;
        FREED = 0;
    }
    sel.del_fd(io);
    assert!(io.timer.borrow().is_none(), "[C18.3-slot-emptied] del_fd takes the timer handle out of the socket's slot");
    assert!(unsafe { DELETES } == 1 && unsafe { DELETED_FD } == io.fd, "[C18.3-epoll-delete] the fd is deleted from the epoll set");
    assert!(unsafe { FREED } == 1, "[C18.3-deferred-free] the EventData is handed to the free list (the selector may still hold an event pointing at it)");
    if armed {
        match q.pop() {
            Some(d) => {
                assert!(d.data.event_data.is_null(), "[C18.2-disarmed] the timer entry left behind by del_fd is still armed: when it expires it times out whoever owns that EventData by then — a later operation or another socket");
                // somebody (a later operation / a new socket that got this memory) is blocked when the stale entry expires
                let co2: CoroutineImpl = generator::shim_new_empty(0x1000);
                io.co.store(co2);
                super::super::timeout_handler(d.data);
                assert!(sup::count(sup::E_SCHEDULE) + sup::count(sup::E_RUN) == 0, "[C18.2-stale-timer-harmless] an expired stale timer entry resumed a later operation");
                std::mem::forget(io.co.take());
            }
            // an implementation that really unlinks the entry is fine as well; the real list cannot unlink its newest entry
            None => {}
        }
    }
}

//@ obligation: C18.3a
//@ property: C18 C09
//@ kind: K3
//@ complete: yes
//@ functions: Selector::del_fd, timeout_handler
//@ statement: del_fd on a socket whose I/O timer is still armed (a cancelled timed operation): the timer slot is emptied and the entry left in the timer
//@ statement: list is DISARMED — when it expires later it resumes nobody, whoever owns that memory by then; the fd is deleted from the epoll set once and
//@ statement: the EventData is handed to the free list (kept alive until the next epoll_wait)
#[kani::proof]
#[kani::stub(crate::scheduler::get_scheduler, sup::get_scheduler_stub)]
#[kani::stub(crate::scheduler::Scheduler::schedule, sup::schedule_stub)]
#[kani::stub(crate::coroutine_impl::run_coroutine, sup::run_coroutine_stub)]
#[kani::stub(<crate::park::Park as std::ops::Drop>::drop, sup::park_drop_noop)]
#[kani::stub(crate::yield_now::set_co_para, sup::set_co_para_kind_only)]
#[kani::stub(nix::sys::epoll::Epoll::delete, epoll_delete_stub)]
#[kani::stub(may_queue::mpsc::Queue::push, free_push_stub)]
#[kani::unwind(3)]
fn c18_3a_del_fd_disarms_the_timer() {
    del_fd_from::<true>();
}

//@ obligation: C18.3b
//@ property: C18 C09
//@ kind: K3
//@ complete: yes
//@ functions: Selector::del_fd, timeout_handler
//@ statement: variant [no timer armed] — del_fd on a socket whose I/O timer is still armed (a cancelled timed operation): the timer slot is emptied and the entry left in the timer
//@ statement: list is DISARMED — when it expires later it resumes nobody, whoever owns that memory by then; the fd is deleted from the epoll set once and
//@ statement: the EventData is handed to the free list (kept alive until the next epoll_wait)
#[kani::proof]
#[kani::stub(crate::scheduler::get_scheduler, sup::get_scheduler_stub)]
#[kani::stub(crate::scheduler::Scheduler::schedule, sup::schedule_stub)]
#[kani::stub(crate::coroutine_impl::run_coroutine, sup::run_coroutine_stub)]
#[kani::stub(<crate::park::Park as std::ops::Drop>::drop, sup::park_drop_noop)]
#[kani::stub(crate::yield_now::set_co_para, sup::set_co_para_kind_only)]
#[kani::stub(nix::sys::epoll::Epoll::delete, epoll_delete_stub)]
#[kani::stub(may_queue::mpsc::Queue::push, free_push_stub)]
#[kani::unwind(3)]
fn c18_3b_del_fd_without_timer() {
    del_fd_from::<false>();
}

static mut LIST_ADDS: usize = 0;
static mut LIST_ADD_DUR: Option<std::time::Duration> = None;
static mut LIST_IS_HEAD: bool = false;
static mut WAKEUPS: usize = 0;
static mut WAKE_ID: usize = usize::MAX;
static mut STUB_Q: *const TimeoutQueue<crate::timeout_list::TimeoutData<super::super::TimerData>> = std::ptr::null();

/// contract of `TimeOutList::add_timer`: the entry is in a list; the flag says whether it became the head of its list
fn list_add_timer_contract<T>(_l: &crate::timeout_list::TimeOutList<T>, dur: std::time::Duration, data: T) -> (crate::timeout_list::TimeoutHandle<T>, bool) {
    unsafe {
        LIST_ADDS += 1;
        LIST_ADD_DUR = Some(dur);
        let q = &*(STUB_Q as *const TimeoutQueue<crate::timeout_list::TimeoutData<T>>);
        let (h, _) = q.push(tl::mk_timeout_data(data));
        (h, LIST_IS_HEAD)
    }
}
fn wakeup_stub(_s: &Selector, id: usize) {
    unsafe {
        WAKEUPS += 1;
        WAKE_ID = id;
    }
}

//@ obligation: C18.3c
//@ property: C18
//@ kind: K3
//@ complete: no
//@ bound: durations below 2^16 seconds
//@ functions: Selector::add_io_timer
//@ statement: arming an I/O timer: a duration d' with d <= d' < d + 1ms goes to the timer list of the worker that owns the socket, once; the entry points back at THIS
//@ statement: socket; the handle is stored in the socket's timer slot (where every taker of the coroutine looks for it to disarm it); when the entry became
//@ statement: the head of its list that worker's event loop is woken to recompute its epoll time-out (otherwise the time-out fires late or never)
#[kani::proof]
#[kani::stub(crate::scheduler::get_scheduler, sup::get_scheduler_stub)]
#[kani::stub(<crate::park::Park as std::ops::Drop>::drop, sup::park_drop_noop)]
#[kani::stub(crate::timeout_list::TimeOutList::add_timer, list_add_timer_contract)]
#[kani::stub(crate::io::sys::select::Selector::wakeup, wakeup_stub)]
#[kani::unwind(3)]
fn c18_3c_add_io_timer_arms_the_socket() {
    let sel = mk_selector();
    let io = ios::mk_io();
    let q: &'static TimeoutQueue<crate::timeout_list::TimeoutData<super::super::TimerData>> = Box::leak(Box::new(TimeoutQueue::new()));
    let secs: u16 = kani::any();
    let nanos: u32 = kani::any();
    kani::assume(nanos < 1_000_000_000);
    let d = std::time::Duration::new(secs as u64, nanos);
    unsafe {
        STUB_Q = q;
        LIST_ADDS = 0;
        WAKEUPS = 0;
        LIST_IS_HEAD = kani::any();
    }
    sel.add_io_timer(io, d);
    unsafe {
        assert!(LIST_ADDS == 1, "[C18.3-armed-once] one timer entry per timed operation");
        let armed = LIST_ADD_DUR.unwrap();
        assert!(armed >= d, "[C18.3-never-early] the I/O time-out is armed with less than the configured duration");
        match d.checked_add(std::time::Duration::from_millis(1)) {
            Some(limit) => assert!(armed < limit, "[C18.3-prompt] the I/O time-out is armed a millisecond or more later than configured"),
            None => {}
        }
        assert!(io.timer.borrow().is_some(), "[C18.3-handle-in-slot] the timer handle must be stored in the socket's timer slot: whoever takes the coroutine looks there to disarm the timer");
        if LIST_IS_HEAD {
            assert!(WAKEUPS >= 1 && WAKE_ID == io.fd as usize % 2, "[C18.3-wake-for-new-head] a timer that became the head of its list: the owning worker's event loop must be woken to recompute its epoll time-out");
        }
        match q.pop() {
            Some(e) => assert!(e.data.event_data as *const EventData == ios::IO, "[C18.3-points-at-socket] the timer entry points back at the socket it was armed for"),
            None => assert!(false, "[C18.3-armed] no timer entry was created"),
        }
    }
}
