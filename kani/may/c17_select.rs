//! C17 / C18 / C01 — the epoll loop body `Selector::select`: for every readiness event the selector FIRST records the
//! readiness bits in the socket's flag and THEN takes the blocked coroutine (the waker half of the no-lost-wake-up
//! handshake, lemma L1), disarms the I/O timer before it hands the coroutine on, hands it on exactly once to its own
//! worker's queue; a wake-up event makes the worker collect its global queue; the queued coroutines are run afterwards.
//! Child module of `io/sys/unix/epoll.rs` (module `io::sys::select`). The kernel (`Epoll::wait`, `read`), the scheduler
//! queues are replaced by scripted stubs / their contracts; the timer list is real but empty.
//! TOOL LIMIT: both harnesses exceed 400 s — `Selector.vec` is a `SmallVec<[SingleSelector; 128]>`, a union with a ~25 KB inline
//! array; every `self.vec[id]` goes through the union and CBMC loses field precision (the empty heap is no longer known to be
//! empty, the real schedule_timer/BinaryHeap code is explored). Kept as `tier: experimental` (never run, never counted).
//@ file-needs: cz tl ao iosup
//@ file-inject: src/io/sys/unix/epoll.rs
//@ file-modpath: io::sys::select
//@ file-property: C17
use super::*;
use crate::coroutine_impl::vk_support as sup;
use crate::coroutine_impl::CoroutineImpl;
use crate::timeout_list::vk_tl as tl;
use may_queue::mpsc_list_v1::Queue as TimeoutQueue;

static mut N_EVENTS: usize = 0;
static mut EV: [(u32, u64); 2] = [(0, 0); 2];
static mut CLOCK: usize = 0;
static mut COLLECTS: usize = 0;
static mut COLLECT_ID: usize = usize::MAX;
static mut SCHEDULES: usize = 0;
static mut SCHEDULED_ID: usize = 0;
static mut SCHEDULED_TO: usize = usize::MAX;
static mut SCHEDULE_AT: usize = 0;
static mut RUN_QUEUED: usize = 0;
static mut RUN_QUEUED_AT: usize = 0;
static mut RUN_QUEUED_ID: usize = usize::MAX;
static mut TIMER_PASS: usize = 0;
static mut E: *const EventData = std::ptr::null();
static mut TIMER_SLOT_EMPTY_AT_SCHEDULE: bool = false;

fn epoll_wait_stub<T: Into<EpollTimeout>>(_e: &Epoll, events: &mut [EpollEvent], _t: T) -> nix::Result<usize> {
    unsafe {
        let mut i = 0;
        while i < N_EVENTS {
            events[i] = EpollEvent::new(EpollFlags::from_bits_truncate(EV[i].0 as i32), EV[i].1);
            i += 1;
        }
        Ok(N_EVENTS)
    }
}
fn read_stub<Fd: std::os::fd::AsFd>(_fd: Fd, _buf: &mut [u8]) -> nix::Result<usize> {
    Ok(8)
}
fn collect_global_stub(_s: &Scheduler, id: usize) {
    unsafe {
        CLOCK += 1;
        COLLECTS += 1;
        COLLECT_ID = id;
    }
}
fn schedule_with_id_stub(_s: &Scheduler, co: CoroutineImpl, id: usize) {
    unsafe {
        CLOCK += 1;
        SCHEDULES += 1;
        SCHEDULE_AT = CLOCK;
        SCHEDULED_ID = co.shim_id();
        SCHEDULED_TO = id;
        let e = &*E;
        TIMER_SLOT_EMPTY_AT_SCHEDULE = e.timer.borrow().is_none();
    }
    std::mem::forget(co);
}
fn run_queued_tasks_stub(_s: &Scheduler, id: usize) {
    unsafe {
        CLOCK += 1;
        RUN_QUEUED += 1;
        RUN_QUEUED_AT = CLOCK;
        RUN_QUEUED_ID = id;
    }
}
fn free_unused_stub(_s: &Selector, _id: usize) {}
fn now_stub() -> u64 {
    unsafe { TIMER_PASS += 1 };
    5
}
/// a Selector of which only the vector length exists (one single selector whose members are never touched: every
/// function that would touch them is replaced)
fn mk_selector() -> &'static Selector {
    unsafe {
        let p = Box::into_raw(Box::<Selector>::new_uninit()) as *mut Selector;
        // built in place: moving a SmallVec with 128 inline SingleSelectors is a byte-wise copy of a large union
        std::ptr::addr_of_mut!((*p).vec).write(SmallVec::new());
        (*p).vec.set_len(2);
        // the timer list of worker 1: an empty heap (the real schedule_timer runs on it)
        tl::init_empty_heap_only(std::ptr::addr_of_mut!((*(*p).vec.as_mut_ptr().add(1)).timer_list));
        &*p
    }
}

fn select_hands_over<const PRESENT: bool, const TIMED: bool>() {
    sup::trace_reset();
    sup::scheduler_reset();
    let sel = mk_selector();
    let ev: &'static EventData = Box::leak(Box::new(EventData::new(7)));
    let co: CoroutineImpl = generator::shim_new_empty(0x1000);
    let id = co.shim_id();
    if PRESENT {
        ev.co.store(co);
    } else {
        std::mem::forget(co);
    }
    if TIMED {
        let q: &'static TimeoutQueue<crate::timeout_list::TimeoutData<super::super::TimerData>> = Box::leak(Box::new(TimeoutQueue::new()));
        let (h, _) = q.push(tl::mk_timeout_data(ev.timer_data()));
        // a second entry: the first one is then removable (the list never unlinks its newest entry)
        let (h2, _) = q.push(tl::mk_timeout_data(super::super::TimerData { event_data: std::ptr::null_mut() }));
        std::mem::forget(h2);
        ev.timer.borrow_mut().replace(h);
    }
    let bits = (EpollFlags::EPOLLIN | EpollFlags::EPOLLOUT).bits() as u32;
    unsafe {
        E = ev;
        CLOCK = 0;
        COLLECTS = 0;
        SCHEDULES = 0;
        RUN_QUEUED = 0;
        TIMER_PASS = 0;
        N_EVENTS = 2;
        // a wake-up event (data 0) and a readiness event for the socket
        EV = [(EpollFlags::EPOLLIN.bits() as u32, 0), (bits, ev as *const EventData as u64)];
        sup::AO_WATCH = &ev.co as *const _ as *const u8;
        sup::AO_WATCH_FLAG = &ev.io_flag;
        sup::AO_FLAG_AT_TAKE = usize::MAX;
        sup::AO_TAKES = 0;
    }
    let mut events: [SysEvent; 4] = [EpollEvent::empty(); 4];
    let sched = sup::get_scheduler_stub();
    let r = sel.select(sched, 1, &mut events, None);
    let flag_at_take = unsafe { sup::AO_FLAG_AT_TAKE };
    unsafe { sup::AO_WATCH = std::ptr::null() };
    assert!(r.is_ok(), "[C17.7-returns] the loop body returns the next timer expiry");
    unsafe {
        assert!(flag_at_take != usize::MAX, "[C17.7-looks-for-waiter] the selector must look for a blocked coroutine on every readiness event");
        assert!(flag_at_take & (bits as usize) == bits as usize, "[C17.7-flag-before-take] the selector takes the blocked coroutine before it has recorded the readiness bits: a coroutine published in between sees no readiness and nobody wakes it");
        assert!(ev.io_flag.load(Ordering::Relaxed) & (bits as usize) == bits as usize, "[C17.7-flag-recorded] the readiness bits of the event are recorded in the socket's flag");
        assert!(COLLECTS == 1 && COLLECT_ID == 1, "[C17.7-wakeup-collects] a wake-up event makes the worker collect ITS global queue (that is what schedule_global woke it for)");
        if PRESENT {
            assert!(SCHEDULES == 1 && SCHEDULED_ID == id, "[C17.7-handover-once] the blocked coroutine is handed to the scheduler exactly once");
            assert!(SCHEDULED_TO == 1, "[C17.7-own-queue] the selector of worker i schedules onto worker i's local queue (single producer)");
            assert!(ev.co.take().is_none(), "[C17.7-taken] the coroutine was taken out of the I/O slot");
            if TIMED {
                assert!(TIMER_SLOT_EMPTY_AT_SCHEDULE, "[C18.2-disarm-before-handover] the I/O timer is still armed when the coroutine is handed on: it can time out the coroutine's NEXT operation");
            }
        } else {
            assert!(SCHEDULES == 0, "[C17.7-nothing-to-hand-over] without a blocked coroutine nothing is scheduled");
        }
        assert!(RUN_QUEUED == 1 && RUN_QUEUED_ID == 1 && (SCHEDULES == 0 || SCHEDULE_AT < RUN_QUEUED_AT), "[C17.7-run-after-collect] the queued coroutines are run after the events have been turned into queue entries, once per loop");
        assert!(TIMER_PASS == 1, "[C18.2-timer-pass] the I/O timer list is scheduled once per loop (with the current clock)");
        assert!(matches!(r, Ok(None)), "[C17.7-returns] with no timer pending the loop body reports no next expiry");
    }
}

//@ obligation: C17.7a
//@ tier: experimental
//@ property: C17 C18 C01
//@ kind: K3
//@ complete: yes
//@ functions: Selector::select
//@ statement: epoll loop body, variant [a coroutine is blocked on the socket, with an I/O timer armed]: readiness bits recorded in the flag BEFORE the coroutine
//@ statement: slot is taken; timer slot emptied before the coroutine is handed on; handed on exactly once to the selector's own worker queue; a wake-up event
//@ statement: collects the worker's global queue; queued coroutines run afterwards; the timer list is scheduled once
#[kani::proof]
#[kani::stub(crate::scheduler::get_scheduler, sup::get_scheduler_stub)]
#[kani::stub(<crate::park::Park as std::ops::Drop>::drop, sup::park_drop_noop)]
#[kani::stub(nix::sys::epoll::Epoll::wait, epoll_wait_stub)]
#[kani::stub(nix::unistd::read, read_stub)]
#[kani::stub(crate::scheduler::Scheduler::collect_global, collect_global_stub)]
#[kani::stub(crate::scheduler::Scheduler::schedule_with_id, schedule_with_id_stub)]
#[kani::stub(crate::scheduler::Scheduler::run_queued_tasks, run_queued_tasks_stub)]
#[kani::stub(crate::io::sys::select::Selector::free_unused_event_data, free_unused_stub)]
#[kani::stub(crate::timeout_list::now, now_stub)]
#[kani::stub(crate::sync::AtomicOption::take, crate::sync::AtomicOption::vk_take_observed)]
#[kani::unwind(4)]
fn c17_7a_select_present_timed() {
    select_hands_over::<true, true>();
}

//@ obligation: C17.7b
//@ tier: experimental
//@ property: C17 C18 C01
//@ kind: K3
//@ complete: yes
//@ functions: Selector::select
//@ statement: epoll loop body, variant [no coroutine is blocked on the socket yet]: the readiness bits are recorded in the flag all the same (the caller's
//@ statement: re-check will find them), nothing is scheduled
#[kani::proof]
#[kani::stub(crate::scheduler::get_scheduler, sup::get_scheduler_stub)]
#[kani::stub(<crate::park::Park as std::ops::Drop>::drop, sup::park_drop_noop)]
#[kani::stub(nix::sys::epoll::Epoll::wait, epoll_wait_stub)]
#[kani::stub(nix::unistd::read, read_stub)]
#[kani::stub(crate::scheduler::Scheduler::collect_global, collect_global_stub)]
#[kani::stub(crate::scheduler::Scheduler::schedule_with_id, schedule_with_id_stub)]
#[kani::stub(crate::scheduler::Scheduler::run_queued_tasks, run_queued_tasks_stub)]
#[kani::stub(crate::io::sys::select::Selector::free_unused_event_data, free_unused_stub)]
#[kani::stub(crate::timeout_list::now, now_stub)]
#[kani::stub(crate::sync::AtomicOption::take, crate::sync::AtomicOption::vk_take_observed)]
#[kani::unwind(4)]
fn c17_7b_select_absent() {
    select_hands_over::<false, false>();
}
