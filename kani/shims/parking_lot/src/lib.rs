//! Single-threaded stand-in for the subset of `parking_lot` used by `may`
//! (`Mutex`, `RwLock`, `Condvar`). Used ONLY in the Kani harness build through `[patch.crates-io]`
//! (DESIGN.md §2.2): the real slow paths reach thread-parking code kani-compiler 0.68 cannot compile.
//! Part of the TRUSTED BASE.
//!
//! Contract: a lock is a flag plus the data; locking a held lock is a verification failure
//! (`assert!`), i.e. a sequential dead-lock; `Condvar::wait*` call a harness hook (which models "some
//! other party ran while we were blocked") and report what the hook says about the time-out.
#![allow(clippy::all)]
#![allow(static_mut_refs)]

use std::cell::{Cell, UnsafeCell};
use std::ops::{Deref, DerefMut};
use std::time::Duration;

pub mod ghost {
    /// called by `Condvar::wait` / `wait_for` while the mutex is released; returns `timed_out`
    pub static mut CONDVAR_WAIT_HOOK: Option<fn(*const u8, bool) -> bool> = None;
    pub static mut CONDVAR_WAITS: usize = 0;
    pub static mut CONDVAR_NOTIFIES: usize = 0;
    pub unsafe fn reset() {
        CONDVAR_WAIT_HOOK = None;
        CONDVAR_WAITS = 0;
        CONDVAR_NOTIFIES = 0;
    }
}

#[derive(Debug, Default)]
pub struct Mutex<T: ?Sized> {
    locked: Cell<bool>,
    data: UnsafeCell<T>,
}
unsafe impl<T: ?Sized + Send> Send for Mutex<T> {}
unsafe impl<T: ?Sized + Send> Sync for Mutex<T> {}

pub struct MutexGuard<'a, T: ?Sized> {
    m: &'a Mutex<T>,
}

impl<T> Mutex<T> {
    pub const fn new(t: T) -> Self {
        Mutex {
            locked: Cell::new(false),
            data: UnsafeCell::new(t),
        }
    }
    pub fn into_inner(self) -> T {
        self.data.into_inner()
    }
}

impl<T: ?Sized> Mutex<T> {
    pub fn lock(&self) -> MutexGuard<'_, T> {
        assert!(!self.locked.get(), "parking_lot shim: sequential dead-lock on Mutex");
        self.locked.set(true);
        MutexGuard { m: self }
    }
    pub fn try_lock(&self) -> Option<MutexGuard<'_, T>> {
        if self.locked.get() {
            None
        } else {
            self.locked.set(true);
            Some(MutexGuard { m: self })
        }
    }
    pub fn is_locked(&self) -> bool {
        self.locked.get()
    }
    pub fn get_mut(&mut self) -> &mut T {
        self.data.get_mut()
    }
}

impl<T: ?Sized> Deref for MutexGuard<'_, T> {
    type Target = T;
    fn deref(&self) -> &T {
        unsafe { &*self.m.data.get() }
    }
}
impl<T: ?Sized> DerefMut for MutexGuard<'_, T> {
    fn deref_mut(&mut self) -> &mut T {
        unsafe { &mut *self.m.data.get() }
    }
}
impl<T: ?Sized> Drop for MutexGuard<'_, T> {
    fn drop(&mut self) {
        self.m.locked.set(false);
    }
}

#[derive(Debug, Copy, Clone, PartialEq, Eq)]
pub struct WaitTimeoutResult(bool);
impl WaitTimeoutResult {
    pub fn timed_out(&self) -> bool {
        self.0
    }
}

#[derive(Debug, Default)]
pub struct Condvar {
    _p: (),
}

impl Condvar {
    pub const fn new() -> Self {
        Condvar { _p: () }
    }
    fn blocked<T: ?Sized>(&self, guard: &mut MutexGuard<'_, T>, timed: bool) -> bool {
        unsafe { ghost::CONDVAR_WAITS += 1 };
        guard.m.locked.set(false);
        let r = unsafe {
            match ghost::CONDVAR_WAIT_HOOK {
                Some(h) => h(self as *const Condvar as *const u8, timed),
                None => timed,
            }
        };
        assert!(!guard.m.locked.get(), "parking_lot shim: mutex still held by the hook");
        guard.m.locked.set(true);
        r && timed
    }
    pub fn wait<T: ?Sized>(&self, guard: &mut MutexGuard<'_, T>) {
        self.blocked(guard, false);
    }
    pub fn wait_for<T: ?Sized>(&self, guard: &mut MutexGuard<'_, T>, _timeout: Duration) -> WaitTimeoutResult {
        WaitTimeoutResult(self.blocked(guard, true))
    }
    pub fn notify_one(&self) -> bool {
        unsafe { ghost::CONDVAR_NOTIFIES += 1 };
        true
    }
    pub fn notify_all(&self) -> usize {
        unsafe { ghost::CONDVAR_NOTIFIES += 1 };
        1
    }
}

#[derive(Debug, Default)]
pub struct RwLock<T: ?Sized> {
    // >0 readers, -1 writer
    state: Cell<isize>,
    data: UnsafeCell<T>,
}
unsafe impl<T: ?Sized + Send> Send for RwLock<T> {}
unsafe impl<T: ?Sized + Send + Sync> Sync for RwLock<T> {}

pub struct RwLockReadGuard<'a, T: ?Sized> {
    l: &'a RwLock<T>,
}
pub struct RwLockWriteGuard<'a, T: ?Sized> {
    l: &'a RwLock<T>,
}

impl<T> RwLock<T> {
    pub const fn new(t: T) -> Self {
        RwLock {
            state: Cell::new(0),
            data: UnsafeCell::new(t),
        }
    }
}
impl<T: ?Sized> RwLock<T> {
    pub fn read(&self) -> RwLockReadGuard<'_, T> {
        assert!(self.state.get() >= 0, "parking_lot shim: sequential dead-lock on RwLock::read");
        self.state.set(self.state.get() + 1);
        RwLockReadGuard { l: self }
    }
    pub fn write(&self) -> RwLockWriteGuard<'_, T> {
        assert!(self.state.get() == 0, "parking_lot shim: sequential dead-lock on RwLock::write");
        self.state.set(-1);
        RwLockWriteGuard { l: self }
    }
}
impl<T: ?Sized> Deref for RwLockReadGuard<'_, T> {
    type Target = T;
    fn deref(&self) -> &T {
        unsafe { &*self.l.data.get() }
    }
}
impl<T: ?Sized> Drop for RwLockReadGuard<'_, T> {
    fn drop(&mut self) {
        self.l.state.set(self.l.state.get() - 1);
    }
}
impl<T: ?Sized> Deref for RwLockWriteGuard<'_, T> {
    type Target = T;
    fn deref(&self) -> &T {
        unsafe { &*self.l.data.get() }
    }
}
impl<T: ?Sized> DerefMut for RwLockWriteGuard<'_, T> {
    fn deref_mut(&mut self) -> &mut T {
        unsafe { &mut *self.l.data.get() }
    }
}
impl<T: ?Sized> Drop for RwLockWriteGuard<'_, T> {
    fn drop(&mut self) {
        self.l.state.set(0);
    }
}
