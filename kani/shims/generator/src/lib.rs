//! Abstract stand-in for the `generator` crate (0.8.9 API subset used by `may`).
//!
//! Used ONLY in the Kani harness build through `[patch.crates-io]` (DESIGN.md §2.2): the real crate
//! switches stacks with inline asm and reaches `catch_unwind`, neither of which kani-compiler 0.68
//! accepts. This is part of the TRUSTED BASE and is listed in every evidence file.
//!
//! Contract of the shim (what the harnesses rely on):
//!  * a generator is a heap object holding the not-yet-run closure, the passed-in para, the local-data
//!    pointer and a panic slot; `into_raw`/`from_raw` are pointer conversions;
//!  * `resume()` makes the generator the *current context* (`ghost::CUR_LOCAL`, `ghost::CUR_PARA`), then
//!      - returns a scripted yield value if the harness queued one (`script_yield`),
//!      - else returns `None` if the harness marked the body as panicking (`script_panic`),
//!      - else runs the stored closure to completion in the caller's context and returns `Some(ret)`,
//!      - else (no closure left) returns `None`;
//!  * `co_yield_with(v)` counts a yield and hands `v` to the harness hook (`ghost::YIELD_HOOK`);
//!  * `co_get_yield` / `co_set_para` read and write the current context's para slot;
//!  * `get_local_data()` returns the current context's local data (null = thread context).
//!  * a generator dropped (or re-initialised) before its closure ran leaks the closure instead of dropping it;
//!    a pending panic payload, para or scripted yield value is leaked as well.
//! No stack switch, no unwinding, no stack reuse is modelled.
#![allow(clippy::all)]
#![allow(static_mut_refs)]

use std::any::Any;
use std::fmt;
use std::marker::PhantomData;
use std::ptr::{self, NonNull};

pub const DEFAULT_STACK_SIZE: usize = 0x1000;

/// yield panic error types
#[derive(Debug, Copy, Clone, Eq, PartialEq)]
pub enum Error {
    Done,
    Cancel,
    TypeErr,
    StackErr,
    ContextErr,
}

/// Ghost state of the abstract runtime. Harnesses read and write these directly.
pub mod ghost {
    use std::ptr;
    /// local data of the running coroutine; null = thread context
    pub static mut CUR_LOCAL: *mut u8 = ptr::null_mut();
    /// erased `*mut Option<A>`: para slot of the running coroutine; null = none
    pub static mut CUR_PARA: *mut u8 = ptr::null_mut();
    /// number of `co_yield_with` calls so far
    pub static mut YIELDS: usize = 0;
    /// called by `co_yield_with` with an erased `*mut Option<T>` holding the yielded value
    pub static mut YIELD_HOOK: Option<fn(*mut u8)> = None;
    /// number of `resume` calls so far
    pub static mut RESUMES: usize = 0;
    /// number of generator objects dropped so far
    pub static mut GEN_DROPS: usize = 0;
    /// next generator id
    pub static mut NEXT_ID: usize = 1;
    /// id of the generator most recently resumed
    pub static mut LAST_RESUMED: usize = 0;

    pub unsafe fn reset() {
        CUR_LOCAL = ptr::null_mut();
        CUR_PARA = ptr::null_mut();
        YIELDS = 0;
        YIELD_HOOK = None;
        RESUMES = 0;
        GEN_DROPS = 0;
        NEXT_ID = 1;
        LAST_RESUMED = 0;
    }
}

unsafe fn call_thunk<F: FnOnce() -> T, T>(p: *mut u8) -> T {
    let f: Box<F> = Box::from_raw(p as *mut F);
    (*f)()
}

unsafe fn drop_thunk<F>(p: *mut u8) {
    drop(Box::from_raw(p as *mut F));
}

struct Imp<'a, A, T> {
    id: usize,
    // the not-yet-run closure, type-erased WITHOUT a trait object: a `Box<dyn FnOnce>` would make every
    // drop and call a virtual call, for which CBMC considers every closure in the program as a target
    f_ptr: *mut u8,
    f_call: Option<unsafe fn(*mut u8) -> T>,
    f_drop: Option<unsafe fn(*mut u8)>,
    _life: PhantomData<&'a ()>,
    scripted: Option<T>,
    scripted_panic: bool,
    para: Option<A>,
    local_data: *mut u8,
    panic: Option<Box<dyn Any + Send>>,
    size: usize,
    used: usize,
    resumes: usize,
}

impl<'a, A, T> Imp<'a, A, T> {
    fn set_code<F: FnOnce() -> T + Send + 'a>(&mut self, f: F) {
        self.f_ptr = Box::into_raw(Box::new(f)) as *mut u8;
        self.f_call = Some(call_thunk::<F, T>);
        self.f_drop = Some(drop_thunk::<F>);
    }
    /// A closure that never ran is LEAKED, not dropped (the real crate unwinds the not-yet-finished
    /// generator instead): calling the erased drop function here is a function-pointer call for which CBMC
    /// considers every closure type in the program, and through their captures generators again.
    fn clear_code(&mut self) {
        self.f_drop = None;
        self.f_call = None;
        self.f_ptr = ptr::null_mut();
    }
    fn has_code(&self) -> bool {
        self.f_call.is_some()
    }
    fn run_code(&mut self) -> Option<T> {
        match self.f_call.take() {
            Some(c) => {
                self.f_drop = None;
                let p = self.f_ptr;
                self.f_ptr = ptr::null_mut();
                Some(unsafe { c(p) })
            }
            None => None,
        }
    }
}

pub struct GeneratorObj<'a, A, T, const LOCAL: bool> {
    imp: NonNull<Imp<'a, A, T>>,
    _p: PhantomData<Box<Imp<'a, A, T>>>,
}

pub type Generator<'a, A, T> = GeneratorObj<'a, A, T, false>;
pub type LocalGenerator<'a, A, T> = GeneratorObj<'a, A, T, true>;

unsafe impl<A: Send, T: Send> Send for Generator<'static, A, T> {}

impl<'a, A, T> Generator<'a, A, T> {
    pub fn init_code<F: FnOnce() -> T + Send + 'a>(&mut self, f: F) {
        let imp = unsafe { &mut *self.imp.as_ptr() };
        imp.clear_code();
        imp.set_code(f);
        imp.scripted = None;
        imp.scripted_panic = false;
        imp.panic = None;
    }
}

impl<'a, A, T, const LOCAL: bool> GeneratorObj<'a, A, T, LOCAL> {
    fn new_imp(size: usize) -> Self {
        let id = unsafe {
            let id = ghost::NEXT_ID;
            ghost::NEXT_ID += 1;
            id
        };
        let imp = Box::new(Imp {
            id,
            f_ptr: ptr::null_mut(),
            f_call: None,
            f_drop: None,
            _life: PhantomData,
            scripted: None,
            scripted_panic: false,
            para: None,
            local_data: ptr::null_mut(),
            panic: None,
            size,
            used: 0,
            resumes: 0,
        });
        GeneratorObj {
            imp: unsafe { NonNull::new_unchecked(Box::into_raw(imp)) },
            _p: PhantomData,
        }
    }

    /// # Safety
    /// `raw` must come from `into_raw`
    pub unsafe fn from_raw(raw: *mut usize) -> Self {
        GeneratorObj {
            imp: NonNull::new_unchecked(raw as *mut Imp<'a, A, T>),
            _p: PhantomData,
        }
    }

    pub fn into_raw(self) -> *mut usize {
        let p = self.imp.as_ptr() as *mut usize;
        std::mem::forget(self);
        p
    }

    pub fn prefetch(&self) {}

    pub fn set_para(&mut self, para: A) {
        unsafe { (*self.imp.as_ptr()).para = Some(para) };
    }

    pub fn set_local_data(&mut self, data: *mut u8) {
        unsafe { (*self.imp.as_ptr()).local_data = data };
    }

    pub fn get_local_data(&self) -> *mut u8 {
        unsafe { (*self.imp.as_ptr()).local_data }
    }

    pub fn get_panic_data(&mut self) -> Option<Box<dyn Any + Send>> {
        unsafe { (*self.imp.as_ptr()).panic.take() }
    }

    pub fn resume(&mut self) -> Option<T> {
        let imp = unsafe { &mut *self.imp.as_ptr() };
        imp.resumes += 1;
        unsafe {
            ghost::RESUMES += 1;
            ghost::LAST_RESUMED = imp.id;
        }
        // enter the coroutine context
        let (old_local, old_para) = unsafe { (ghost::CUR_LOCAL, ghost::CUR_PARA) };
        unsafe {
            ghost::CUR_LOCAL = imp.local_data;
            ghost::CUR_PARA = &mut imp.para as *mut Option<A> as *mut u8;
        }
        let ret = if let Some(v) = imp.scripted.take() {
            Some(v)
        } else if imp.scripted_panic {
            imp.scripted_panic = false;
            imp.clear_code();
            None
        } else {
            imp.run_code()
        };
        unsafe {
            ghost::CUR_LOCAL = old_local;
            ghost::CUR_PARA = old_para;
        }
        ret
    }

    pub fn is_done(&self) -> bool {
        unsafe { !(*self.imp.as_ptr()).has_code() }
    }

    pub fn stack_usage(&self) -> (usize, usize) {
        unsafe { ((*self.imp.as_ptr()).size, (*self.imp.as_ptr()).used) }
    }

    // ---- shim-only API (harness side) ----
    pub fn shim_id(&self) -> usize {
        unsafe { (*self.imp.as_ptr()).id }
    }
    pub fn shim_resumes(&self) -> usize {
        unsafe { (*self.imp.as_ptr()).resumes }
    }
    /// the next `resume` returns `Some(v)` without running the closure (a yield)
    pub fn script_yield(&mut self, v: T) {
        unsafe { (*self.imp.as_ptr()).scripted = Some(v) };
    }
    /// the next `resume` returns `None` (the body panicked) and leaves `payload` as panic data
    pub fn script_panic(&mut self, payload: Option<Box<dyn Any + Send>>) {
        unsafe {
            (*self.imp.as_ptr()).scripted_panic = true;
            (*self.imp.as_ptr()).panic = payload;
        }
    }
    pub fn shim_peek_para(&self) -> Option<&A> {
        unsafe { (*self.imp.as_ptr()).para.as_ref() }
    }
    pub fn shim_take_para(&mut self) -> Option<A> {
        unsafe { (*self.imp.as_ptr()).para.take() }
    }
    pub fn shim_set_stack(&mut self, size: usize, used: usize) {
        unsafe {
            (*self.imp.as_ptr()).size = size;
            (*self.imp.as_ptr()).used = used;
        }
    }
    pub fn shim_has_code(&self) -> bool {
        unsafe { (*self.imp.as_ptr()).has_code() }
    }
}

impl<A, T, const LOCAL: bool> Drop for GeneratorObj<'_, A, T, LOCAL> {
    fn drop(&mut self) {
        unsafe {
            ghost::GEN_DROPS += 1;
            let imp = &mut *self.imp.as_ptr();
            imp.clear_code();
            // the box is freed WITHOUT running the field drop glue: a pending panic payload (`Box<dyn Any>`), a
            // pending para (`io::Error` holds a `Box<dyn Error>`) and a scripted yield value are leaked —
            // every trait-object drop is a virtual call with thousands of candidate targets for CBMC
            let b: Box<std::mem::ManuallyDrop<Imp<'_, A, T>>> = Box::from_raw(self.imp.as_ptr() as *mut _);
            drop(b);
        }
    }
}

impl<A, T, const LOCAL: bool> fmt::Debug for GeneratorObj<'_, A, T, LOCAL> {
    fn fmt(&self, f: &mut fmt::Formatter<'_>) -> fmt::Result {
        f.write_str("Generator { shim }")
    }
}

pub struct Gn<A = ()> {
    dummy: PhantomData<A>,
}

impl<A: Any> Gn<A> {
    pub fn new<'a, T: Any, F>(f: F) -> Generator<'a, A, T>
    where
        F: FnOnce() -> T + Send + 'a,
    {
        Self::new_opt(DEFAULT_STACK_SIZE, f)
    }

    pub fn new_opt<'a, T: Any, F>(size: usize, f: F) -> Generator<'a, A, T>
    where
        F: FnOnce() -> T + Send + 'a,
    {
        let g = GeneratorObj::new_imp(size);
        unsafe { (*g.imp.as_ptr()).set_code(f) };
        g
    }
}

/// Make an empty generator (no closure); harness side only.
pub fn shim_new_empty<'a, A, T>(size: usize) -> Generator<'a, A, T> {
    GeneratorObj::new_imp(size)
}

pub fn is_generator() -> bool {
    unsafe { !ghost::CUR_LOCAL.is_null() }
}

pub fn get_local_data() -> *mut u8 {
    unsafe { ghost::CUR_LOCAL }
}

pub fn co_yield_with<T: Any>(v: T) {
    unsafe {
        ghost::YIELDS += 1;
        let mut slot = Some(v);
        if let Some(hook) = ghost::YIELD_HOOK {
            hook(&mut slot as *mut Option<T> as *mut u8);
        }
        // an un-taken value is dropped here
    }
}

pub fn co_get_yield<A: Any>() -> Option<A> {
    unsafe {
        if ghost::CUR_PARA.is_null() {
            None
        } else {
            (*(ghost::CUR_PARA as *mut Option<A>)).take()
        }
    }
}

pub fn co_set_para<A: Any>(para: A) {
    unsafe {
        if !ghost::CUR_PARA.is_null() {
            *(ghost::CUR_PARA as *mut Option<A>) = Some(para);
        }
    }
}

pub fn yield_with<T: Any>(v: T) {
    co_yield_with(v)
}

pub fn get_yield<A: Any>() -> Option<A> {
    co_get_yield()
}
