//! C03 (mpsc part) — multi-producer block queue: FIFO, nothing lost or duplicated, across block
//! boundaries, delayed block free and drop; the consumer spins on a reserved-but-unwritten slot.
//! Injected as a child module of `mpsc.rs`.
//@ file-inject: may_queue/src/mpsc.rs
//@ file-property: C03
use super::*;

const NV: usize = 70;
static mut DROPS: usize = 0;
static mut SPUN: bool = false;

struct D(u8);
impl Drop for D {
    fn drop(&mut self) {
        unsafe { DROPS += 1 };
    }
}

/// the consumer is expected to spin: record it and cut the path (the wait itself is not verified)
fn spin_expected() {
    unsafe { SPUN = true };
    kani::cover!(true, "consumer spin reached");
    kani::assume(false);
}

/// sequentially nobody may have to spin
fn spin_never() {
    assert!(false, "[C03.4-no-spin] a spin loop was entered although no other party is active (sequentially it would hang)");
    kani::assume(false);
}

struct Drv {
    q: Queue<u8>,
    vals: [u8; NV],
    pushed: usize,
    popped: usize,
}

impl Drv {
    fn new() -> Self {
        Drv { q: Queue::new(), vals: kani::any(), pushed: 0, popped: 0 }
    }
    fn check_len(&self) {
        assert!(self.q.len() == self.pushed - self.popped, "[C03.4-len] len equals pushes minus pops");
        assert!(self.q.is_empty() == (self.pushed == self.popped), "[C03.4-is-empty] is_empty iff every pushed value was popped");
    }
    fn push(&mut self, n: usize) {
        let mut i = 0;
        while i < n {
            self.q.push(self.vals[self.pushed]);
            self.pushed += 1;
            i += 1;
        }
        self.check_len();
    }
    fn pop(&mut self, n: usize) {
        let mut i = 0;
        while i < n {
            let r = self.q.pop();
            if self.popped == self.pushed {
                assert!(r.is_none(), "[C03.4-pop-empty] pop on an empty queue returns None");
            } else {
                assert!(r == Some(self.vals[self.popped]), "[C03.4-pop-fifo] pop returns the oldest value not yet popped");
                self.popped += 1;
            }
            i += 1;
        }
        self.check_len();
    }
    fn peek(&mut self) {
        let r = unsafe { self.q.peek() }.copied();
        if self.popped == self.pushed {
            assert!(r.is_none(), "[C03.4-peek-empty] peek on an empty queue returns None");
        } else {
            assert!(r == Some(self.vals[self.popped]), "[C03.4-peek] peek shows the oldest value without consuming it");
        }
    }
    fn bulk(&mut self) {
        let v = self.q.bulk_pop();
        let avail = self.pushed - self.popped;
        let to_block_end = BLOCK_SIZE - (self.popped & BLOCK_MASK);
        let exp = if avail < to_block_end { avail } else { to_block_end };
        assert!(v.len() == exp, "[C03.4-bulk-len] bulk_pop returns every queued value up to the end of the head block (empty iff the queue is empty)");
        let mut i = 0;
        while i < v.len() {
            assert!(v[i] == self.vals[self.popped + i], "[C03.4-bulk-fifo] bulk_pop returns an in-order prefix of the queue");
            i += 1;
        }
        self.popped += exp;
        self.check_len();
    }
}

impl Drv {
    /// White-box fast-forward: the state after `n` (< 64) push+pop pairs, built directly (tail id and head
    /// index set to n). The skipped slots' ready flags stay 0 instead of 1; they are never read again.
    fn fast_forward(&mut self, n: usize) {
        let block = self.q.head.block.load(Ordering::Relaxed);
        self.q.tail.0.store(BlockPtr::<u8>::pack(block, n), Ordering::Relaxed);
        unsafe { *(self.q.head.index.as_ptr()) = n };
        self.pushed = n;
        self.popped = n;
        self.check_len();
    }
}

//@ obligation: C03.4a
//@ kind: K2
//@ complete: no
//@ bound: one concrete schedule from the empty queue: pop (empty), 2 pushes, peek, 2 pops, pop (empty); symbolic payloads
//@ safety-counts: yes
//@ timeout: 600
//@ functions: mpsc::Queue::push, Queue::pop, Queue::peek, Queue::bulk_pop, Queue::fast_bulk_pop, Queue::len, Queue::is_empty, Queue::push_index
//@ statement: against the sequence model: pop = oldest value / None iff empty; peek likewise; bulk_pop = non-empty in-order prefix ending at most at
//@ statement: the block end; len = pushes - pops; no spin is needed sequentially; no slot read uninitialised, no block freed twice or used after free
#[kani::proof]
#[kani::stub(std::hint::spin_loop, spin_never)]
#[kani::unwind(6)]
fn c03_4a_mpsc_from_empty() {
    let mut d = Drv::new();
    d.pop(1);
    d.push(2);
    d.peek();
    d.pop(2);
    d.pop(1);
    drop(d);
}

//@ obligation: C03.4b
//@ kind: K2
//@ complete: no
//@ bound: one concrete schedule at offset 62 (fast-forwarded white box): 3 pushes and 3 pops across the 64-slot block boundary (closing flag, next-next block install, delayed free of the old block), pop (empty); symbolic payloads
//@ safety-counts: yes
//@ timeout: 600
//@ functions: mpsc::Queue::push, Queue::pop, Queue::len, Queue::push_index, BlockNode::wait_next_block
//@ statement: as C03.4a across the block boundary
#[kani::proof]
#[kani::stub(std::hint::spin_loop, spin_never)]
#[kani::unwind(6)]
fn c03_4b_mpsc_boundary_pop() {
    let mut d = Drv::new();
    d.fast_forward(62);
    d.push(3);
    d.pop(3);
    d.pop(1);
    drop(d);
}

//@ obligation: C03.4c
//@ kind: K2
//@ complete: no
//@ bound: one concrete schedule at offset 61 (fast-forwarded white box): 4 pushes, then bulk_pops: 3 values up to the block end, 1 value, none; symbolic payloads
//@ safety-counts: yes
//@ timeout: 2400
//@ tier: experimental
//@ mem: 28
//@ functions: mpsc::Queue::push, Queue::bulk_pop, Queue::fast_bulk_pop, mpsc::bulk_end, BlockNode::copy_to_bulk
//@ statement: bulk_pop never crosses a block end and hands over the old block exactly once
#[kani::proof]
#[kani::stub(std::hint::spin_loop, spin_never)]
#[kani::unwind(6)]
fn c03_4c_mpsc_boundary_bulk() {
    let mut d = Drv::new();
    d.fast_forward(61);
    d.push(4);
    d.bulk();
    d.bulk();
    d.bulk();
    drop(d);
}

//@ obligation: C03.5b
//@ kind: K2
//@ complete: no
//@ bound: one concrete schedule with drop-counting payloads: 3 pushes, 1 pop, queue dropped with 2 values queued
//@ safety-counts: yes
//@ timeout: 600
//@ functions: mpsc::Queue::drop, Queue::pop
//@ statement: dropping the queue drops every value still queued exactly once (and none that was already popped); the Drop asserts hold
#[kani::proof]
#[kani::stub(std::hint::spin_loop, spin_never)]
#[kani::unwind(6)]
fn c03_5b_mpsc_drop_drops_remaining_once() {
    unsafe { DROPS = 0 };
    let q: Queue<D> = Queue::new();
    q.push(D(0));
    q.push(D(1));
    q.push(D(2));
    let a = q.pop();
    assert!(unsafe { DROPS } == 0, "[C03.5-no-early-drop] values are not dropped while queued or held");
    drop(a);
    assert!(unsafe { DROPS } == 1, "[C03.5-popped-drop] a popped value is dropped by its owner");
    drop(q);
    assert!(unsafe { DROPS } == 3, "[C03.5-drop-once] queue drop drops each remaining value exactly once");
}

//@ obligation: C03.1b
//@ kind: K1
//@ complete: yes
//@ functions: mpsc::bulk_end
//@ statement: Kani function contract on mpsc::bulk_end (inserted in place): for start <= end <= usize::MAX-64 the result is
//@ statement: min(end, (start/64+1)*64), lies in [start, end], is > start iff start < end, and never crosses the block boundary of start
#[kani::proof_for_contract(bulk_end)]
fn c03_1b_mpsc_bulk_end_contract() {
    let _ = bulk_end(kani::any(), kani::any());
}

//@ obligation: C03.2a
//@ kind: K1
//@ playback: yes
//@ complete: yes
//@ functions: mpsc::BlockPtr::pack, BlockPtr::unpack, Queue::push_index
//@ statement: for a real (64-aligned) block pointer and every id < 64: unpack(pack(p,id)) = (p,id); setting and clearing the bit-63 closing
//@ statement: flag restores the packed word; push_index = block.start + id with or without the flag
#[kani::proof]
#[kani::unwind(3)]
fn c03_2a_mpsc_pack_unpack() {
    let q: Queue<u8> = Queue::new();
    let block = q.head.block.load(Ordering::Relaxed);
    let id: usize = kani::any();
    kani::assume(id < BLOCK_SIZE);
    let packed = BlockPtr::<u8>::pack(block, id);
    let (p, i) = BlockPtr::<u8>::unpack(packed);
    assert!(p == block && i == id, "[C03.2-roundtrip] unpack(pack(p, id)) == (p, id)");
    let flagged = (packed as usize | (1 << 63)) as *mut BlockNode<u8>;
    assert!(flagged != packed, "[C03.2-flag-visible] the closing flag changes the word");
    let cleared = (flagged as usize & !(1 << 63)) as *mut BlockNode<u8>;
    assert!(cleared == packed, "[C03.2-flag-clear] clearing bit 63 restores the packed word");
    q.tail.0.store(packed, Ordering::Relaxed);
    assert!(q.push_index() == id, "[C03.2-push-index] push_index = start + id");
    q.tail.0.store(flagged, Ordering::Relaxed);
    assert!(q.push_index() == id, "[C03.2-push-index-flag] push_index ignores the closing flag");
    q.tail.0.store(block, Ordering::Relaxed);
}

/// a queue in which a producer won the CAS for slot 0 but has not called set() yet
fn queue_with_reserved_slot() -> Queue<u8> {
    let q: Queue<u8> = Queue::new();
    let block = q.head.block.load(Ordering::Relaxed);
    q.tail.0.store(BlockPtr::<u8>::pack(block, 1), Ordering::Release);
    assert!(!q.is_empty() && q.len() == 1, "[C03.6-reserved-counts] a reserved slot counts as queued");
    q
}

//@ obligation: C03.6a
//@ kind: K3
//@ complete: yes
//@ functions: mpsc::Queue::pop, BlockNode::get, BlockNode::try_get
//@ statement: a slot that a producer has reserved (tail advanced) but not yet written is never reported as "empty" and never read:
//@ statement: pop spins on its ready flag and does not return
#[kani::proof]
#[kani::stub(std::hint::spin_loop, spin_expected)]
#[kani::unwind(4)]
fn c03_6a_mpsc_pop_waits_for_reserved_slot() {
    let q = queue_with_reserved_slot();
    let _ = q.pop();
    assert!(false, "[C03.6-pop-waits] pop returned although the reserved slot had not been written");
}

//@ obligation: C03.6c
//@ kind: K3
//@ complete: yes
//@ functions: mpsc::Queue::peek, BlockNode::peek
//@ statement: peek likewise spins on a reserved, unwritten slot and does not return
#[kani::proof]
#[kani::stub(std::hint::spin_loop, spin_expected)]
#[kani::unwind(4)]
fn c03_6c_mpsc_peek_waits_for_reserved_slot() {
    let q = queue_with_reserved_slot();
    let _ = unsafe { q.peek() };
    assert!(false, "[C03.6-peek-waits] peek returned although the reserved slot had not been written");
}

//@ obligation: C03.6d
//@ kind: K3
//@ complete: yes
//@ timeout: 2400
//@ tier: experimental
//@ mem: 28
//@ functions: mpsc::Queue::bulk_pop, Queue::fast_bulk_pop, BlockNode::copy_to_bulk, BlockNode::get
//@ statement: bulk_pop likewise spins on a reserved, unwritten slot and does not return
#[kani::proof]
#[kani::stub(std::hint::spin_loop, spin_expected)]
#[kani::unwind(4)]
fn c03_6d_mpsc_bulk_pop_waits_for_reserved_slot() {
    let q = queue_with_reserved_slot();
    let _ = q.bulk_pop();
    assert!(false, "[C03.6-bulk-waits] bulk_pop returned although the reserved slot had not been written");
}

static mut BLK: *const BlockNode<u8> = std::ptr::null();
static mut EXPECT_V: u8 = 0;
static mut EXPECT_ID: usize = 0;
static mut READY_SEEN: bool = false;

fn store_usize_stub(this: &std::sync::atomic::AtomicUsize, val: usize, _o: Ordering) {
    unsafe {
        if !BLK.is_null() {
            let slot = (*BLK).data.get_unchecked(EXPECT_ID);
            let ready: &std::sync::atomic::AtomicUsize = &slot.ready;
            if std::ptr::eq(this, ready) {
                READY_SEEN = true;
                assert!(val == 1, "[C03.6-ready-value] set marks the slot ready");
                let got = (*slot.value.get()).assume_init_read();
                assert!(got == EXPECT_V, "[C03.6-write-before-ready] the value is in the slot before ready is stored");
            }
        }
        *(this.as_ptr()) = val;
    }
}

//@ obligation: C03.6b
//@ kind: K3
//@ complete: yes
//@ functions: mpsc::BlockNode::set, mpsc::Queue::push
//@ statement: push writes the value into its reserved slot before it stores ready=1 (the flag the consumer spins on), for every slot id
#[kani::proof]
#[kani::stub(std::sync::atomic::Atomic::<usize>::store, store_usize_stub)]
#[kani::unwind(3)]
fn c03_6b_mpsc_set_writes_before_ready() {
    let b = BlockNode::<u8>::new_box(0);
    let id: usize = kani::any();
    kani::assume(id < BLOCK_SIZE);
    let v: u8 = kani::any();
    unsafe {
        BLK = b;
        EXPECT_V = v;
        EXPECT_ID = id;
        READY_SEEN = false;
        (*b).set(id, v);
        assert!(READY_SEEN, "[C03.6-ready-set] set must mark the slot ready");
        assert!((*b).try_get(id) == Some(v), "[C03.6-try-get] a ready slot yields the value written");
        BLK = std::ptr::null();
        drop(Box::from_raw(b));
    }
}

//@ obligation: C03.8a
//@ kind: K2
//@ complete: yes
//@ functions: mpsc::Queue::push
//@ statement: push into the last slot of a block (white box): afterwards the tail is the next block with id 0 and the closing flag cleared,
//@ statement: the next-next block is installed with start = start + 128, and the value is in slot 63; a push into any other slot only advances the id
#[kani::proof]
#[kani::stub(std::hint::spin_loop, spin_never)]
#[kani::unwind(3)]
fn c03_8a_mpsc_push_last_slot_installs_blocks() {
    let q: Queue<u8> = Queue::new();
    let block = q.head.block.load(Ordering::Relaxed);
    let id: usize = kani::any();
    kani::assume(id < BLOCK_SIZE);
    // the first `id` slots were reserved (and are irrelevant here)
    q.tail.0.store(BlockPtr::<u8>::pack(block, id), Ordering::Relaxed);
    let v: u8 = kani::any();
    let next = unsafe { (*block).next.load(Ordering::Relaxed) };
    q.push(v);
    let tail = q.tail.0.load(Ordering::Relaxed);
    unsafe {
        assert!((*block).try_get(id) == Some(v), "[C03.8-slot] the value is in the reserved slot and marked ready");
        if id == BLOCK_MASK {
            assert!(tail == next, "[C03.8-tail-next] after the last slot the tail is the next block, id 0, closing flag cleared");
            let nn = (*next).next.load(Ordering::Relaxed);
            assert!(!nn.is_null(), "[C03.8-next-next] the pusher of the last slot installs the next-next block");
            assert!((*nn).start == 2 * BLOCK_SIZE && (*next).start == BLOCK_SIZE, "[C03.8-start] block start indices advance by one block");
            assert!(q.push_index() == BLOCK_SIZE, "[C03.8-index] push_index continues in the next block");
            drop(Box::from_raw(nn));
        } else {
            assert!(tail == BlockPtr::<u8>::pack(block, id + 1), "[C03.8-advance] a push into another slot only advances the id");
        }
    }
    kani::cover!(id == BLOCK_MASK, "last slot");
    // the queue's Drop expects head block == tail block; free by hand instead
    unsafe {
        drop(Box::from_raw(block));
        drop(Box::from_raw(next));
    }
    std::mem::forget(q);
}

//@ obligation: C03.mpsc-canary
//@ kind: K2
//@ canary: yes
//@ functions: mpsc::Queue::pop
//@ statement: canary — claims LIFO order; must FAIL
#[kani::proof]
#[kani::unwind(5)]
fn c03_mpsc_canary() {
    let q: Queue<u8> = Queue::new();
    q.push(1);
    q.push(2);
    assert!(q.pop() == Some(2), "[C03.mpsc-canary] canary (expected to fail)");
}
