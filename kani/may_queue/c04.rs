//! C04 — work-stealing spmc queue: every task pushed by the owner is obtained exactly once (owner pop,
//! stealer pop / bulk_pop / steal_into), in push order for the owner and inside a stolen batch.
//! Injected as a child module of `spmc.rs` (white box).
//@ file-inject: may_queue/src/spmc.rs
//@ file-property: C04
use super::*;

const NV: usize = 40;

fn sleep_never(_d: std::time::Duration) {
    assert!(false, "[C04.2-no-wait] a taker waits for the owner although nothing is in flight (sequentially it would hang)");
    kani::assume(false);
}

/// Contract of `BlockNode::copy_to_bulk` (checked on the real function by C04.5a): the values of the slots
/// `start .. end` of the block, in order. The real body builds the SmallVec with `collect()`, which is out of
/// CBMC's reach in combination with the packed head pointer (> 28 GB); the callers are checked against this contract.
fn copy_to_bulk_contract<T>(b: &BlockNode<T>, start: usize, end: usize) -> SmallVec<[T; BLOCK_SIZE]> {
    assert!(start <= end && end - start <= BLOCK_SIZE - (start & BLOCK_MASK), "[C04.5-bulk-range] a batch must lie inside one block");
    let len = end - start;
    let start = start & BLOCK_MASK;
    let mut v = SmallVec::new();
    let mut i = 0;
    while i < len {
        v.push(b.get(start + i));
        i += 1;
    }
    v
}

/// two run queues (victim `a`, thief `b`) and the FIFO models of both
struct Drv {
    sa: Steal<u8>,
    la: Local<u8>,
    sb: Steal<u8>,
    lb: Local<u8>,
    vals: [u8; NV],
    // model of a: values vals[a_head..a_tail]
    a_head: usize,
    a_tail: usize,
    // model of b: indices into vals
    b: [usize; NV],
    b_head: usize,
    b_tail: usize,
    taken: [bool; NV],
}

impl Drv {
    fn new() -> Self {
        let (sa, la) = local::<u8>();
        let (sb, lb) = local::<u8>();
        Drv { sa, la, sb, lb, vals: kani::any(), a_head: 0, a_tail: 0, b: [0; NV], b_head: 0, b_tail: 0, taken: [false; NV] }
    }
    /// White-box fast-forward of queue a to offset n (< 32): the state after n push_back+pop pairs.
    fn fast_forward_a(&mut self, n: usize) {
        let q = &self.la.0;
        let block = unsafe { q.tail.block.unsync_load() };
        q.head.0.store(BlockPtr::<u8>::pack(block, n), Ordering::Relaxed);
        unsafe {
            *(q.tail.index.as_ptr()) = n;
            *((*block).used.as_ptr()) = BLOCK_SIZE - n;
        }
        self.a_head = n;
        self.a_tail = n;
        self.check();
    }
    fn take(&mut self, idx: usize) {
        assert!(!self.taken[idx], "[C04.2-once] a task was handed out twice");
        self.taken[idx] = true;
    }
    fn check(&self) {
        assert!(self.la.has_tasks() == (self.a_head != self.a_tail), "[C04.2-has-tasks] has_tasks iff a pushed task has not been taken");
        assert!(self.sa.is_empty() == (self.a_head == self.a_tail), "[C04.2-is-empty] is_empty iff every pushed task has been taken");
        assert!(self.lb.has_tasks() == (self.b_head != self.b_tail), "[C04.2-has-tasks] has_tasks iff a pushed task has not been taken");
    }
    fn push_a(&mut self, n: usize) {
        let mut i = 0;
        while i < n {
            self.la.push_back(self.vals[self.a_tail]);
            self.a_tail += 1;
            i += 1;
        }
        self.check();
    }
    fn pop_a(&mut self) {
        let r = self.la.pop();
        if self.a_head == self.a_tail {
            assert!(r.is_none(), "[C04.2-pop-empty] owner pop on an empty queue returns None");
        } else {
            assert!(r == Some(self.vals[self.a_head]), "[C04.2-owner-fifo] the owner's pop returns its oldest task");
            self.take(self.a_head);
            self.a_head += 1;
        }
        self.check();
    }
    fn steal_pop_a(&mut self) {
        let r = self.sa.0.pop();
        if self.a_head == self.a_tail {
            assert!(r.is_none(), "[C04.2-pop-empty] stealer pop on an empty queue returns None");
        } else {
            assert!(r == Some(self.vals[self.a_head]), "[C04.2-steal-pop-fifo] a stealer's pop returns the oldest task");
            self.take(self.a_head);
            self.a_head += 1;
        }
        self.check();
    }
    fn batch_len(&self) -> usize {
        let avail = self.a_tail - self.a_head;
        let to_block_end = BLOCK_SIZE - (self.a_head & BLOCK_MASK);
        if avail < to_block_end {
            avail
        } else {
            to_block_end
        }
    }
    fn bulk_a(&mut self) {
        let exp = self.batch_len();
        let v = self.sa.0.bulk_pop();
        assert!(v.len() == exp, "[C04.2-bulk-len] bulk_pop claims every published task up to the end of the head block (none iff empty)");
        let mut i = 0;
        while i < v.len() {
            assert!(v[i] == self.vals[self.a_head + i], "[C04.2-bulk-order] a claimed batch is in push order");
            self.take(self.a_head + i);
            i += 1;
        }
        self.a_head += exp;
        self.check();
    }
    fn steal_a_into_b(&mut self) {
        let exp = self.batch_len();
        let r = self.sa.steal_into(&mut self.lb);
        if exp == 0 {
            assert!(r.is_none(), "[C04.2-steal-empty] steal_into an empty victim returns None and moves nothing");
        } else {
            let last = self.a_head + exp - 1;
            assert!(r == Some(self.vals[last]), "[C04.2-steal-returns-newest] steal_into returns the newest task of the stolen batch");
            self.take(last);
            let mut i = 0;
            while i + 1 < exp {
                self.b[self.b_tail] = self.a_head + i;
                self.b_tail += 1;
                i += 1;
            }
            self.a_head += exp;
        }
        self.check();
    }
    fn pop_b(&mut self) {
        let r = self.lb.pop();
        if self.b_head == self.b_tail {
            assert!(r.is_none(), "[C04.2-pop-empty] owner pop on an empty queue returns None");
        } else {
            let idx = self.b[self.b_head];
            assert!(r == Some(self.vals[idx]), "[C04.2-requeued-order] the rest of a stolen batch is re-queued on the thief in push order");
            self.take(idx);
            self.b_head += 1;
        }
        self.check();
    }
    /// everything pushed has been handed out exactly once; then drop (Local::drop asserts emptiness)
    fn finish(mut self) {
        while self.a_head != self.a_tail {
            self.pop_a();
        }
        while self.b_head != self.b_tail {
            self.pop_b();
        }
        self.pop_a();
        self.pop_b();
        drop(self);
    }
}

//@ obligation: C04.2a
//@ kind: K2
//@ complete: no
//@ tier: thorough
//@ mem: 28
//@ bound: one concrete schedule from the empty queue: steal (empty), 3 pushes, owner pop, steal_into(thief), thief pop, owner pops (empty); symbolic payloads; copy_to_bulk replaced by its contract
//@ safety-counts: yes
//@ timeout: 2400
//@ functions: spmc::Local::push_back, Local::pop, Steal::steal_into, Queue::local_pop, Queue::bulk_pop, Queue::push, Queue::is_empty, BlockNode::mark_slots_read
//@ statement: against the FIFO model: every pushed task is obtained exactly once; owner pops are in push order; steal_into returns the newest task of
//@ statement: the claimed batch and re-queues the rest in order on the thief; no taker has to wait sequentially; no slot read uninitialised, blocks freed once
#[kani::proof]
#[kani::stub(std::thread::sleep, sleep_never)]
#[kani::stub(BlockNode::copy_to_bulk, copy_to_bulk_contract)]
#[kani::unwind(8)]
fn c04_2a_steal_from_start() {
    let mut d = Drv::new();
    d.steal_a_into_b();
    d.push_a(3);
    d.pop_a();
    d.steal_a_into_b();
    d.finish();
}

//@ obligation: C04.2b
//@ kind: K2
//@ complete: no
//@ tier: thorough
//@ mem: 28
//@ bound: one concrete schedule at offset 30 (fast-forwarded white box): 4 pushes across the 32-slot block boundary, owner pop, two steal_into (batch ends at the block end; old block freed when all 32 slots were read), thief pops; symbolic payloads
//@ safety-counts: yes
//@ timeout: 2400
//@ functions: spmc::Local::push_back, Local::pop, Steal::steal_into, Queue::local_pop, Queue::bulk_pop, Queue::push, BlockNode::mark_slots_read
//@ statement: as C04.2a across the block boundary: a batch never crosses a block end, the last-slot flag (bit 63) is resolved, the block is freed exactly when its 32 slots were read
#[kani::proof]
#[kani::stub(std::thread::sleep, sleep_never)]
#[kani::stub(BlockNode::copy_to_bulk, copy_to_bulk_contract)]
#[kani::unwind(8)]
fn c04_2b_steal_across_boundary() {
    let mut d = Drv::new();
    d.fast_forward_a(30);
    d.push_a(4);
    d.pop_a(); // 30
    d.steal_a_into_b(); // batch [31]: up to the block end
    d.steal_a_into_b(); // batch [32, 33]
    d.pop_b();
    d.finish();
}

//@ obligation: C04.2c
//@ kind: K2
//@ complete: no
//@ tier: thorough
//@ mem: 28
//@ bound: one concrete schedule at offset 30 (fast-forwarded white box): 3 pushes, stealer pop x2 (second one takes the last slot of the block), bulk_pop, owner pop (empty); symbolic payloads
//@ safety-counts: yes
//@ timeout: 2400
//@ functions: spmc::Queue::pop, Queue::bulk_pop, Queue::local_pop, Queue::push
//@ statement: as C04.2a for the stealer-side single pop and bulk_pop at the block boundary
#[kani::proof]
#[kani::stub(std::thread::sleep, sleep_never)]
#[kani::stub(BlockNode::copy_to_bulk, copy_to_bulk_contract)]
#[kani::unwind(8)]
fn c04_2c_stealer_pop_across_boundary() {
    let mut d = Drv::new();
    d.fast_forward_a(30);
    d.push_a(3);
    d.steal_pop_a(); // 30
    d.steal_pop_a(); // 31: last slot, bit-63 path
    d.bulk_a(); // [32]
    d.pop_a();
    d.finish();
}

//@ obligation: C04.2d
//@ kind: K2
//@ complete: no
//@ bound: one concrete schedule at offset 31 (fast-forwarded white box): owner pops its own last slot of a block and continues in the next block
//@ safety-counts: yes
//@ timeout: 2400
//@ functions: spmc::Queue::local_pop, Queue::push
//@ statement: as C04.2a for the owner's pop of the last slot of a block
#[kani::proof]
#[kani::stub(std::thread::sleep, sleep_never)]
#[kani::stub(BlockNode::copy_to_bulk, copy_to_bulk_contract)]
#[kani::unwind(8)]
fn c04_2d_owner_pop_across_boundary() {
    let mut d = Drv::new();
    d.fast_forward_a(31);
    d.pop_a(); // empty at the last slot: must restore the head
    d.push_a(2);
    d.pop_a(); // 31
    d.pop_a(); // 32
    d.pop_a(); // empty
    d.finish();
}

//@ obligation: C04.2e
//@ kind: K2
//@ complete: no
//@ bound: one concrete schedule: 2 pushes, steal_into(thief), thief pop, owner pop (empty); symbolic payloads; copy_to_bulk replaced by its contract
//@ safety-counts: yes
//@ timeout: 600
//@ functions: spmc::Local::push_back, Local::pop, Steal::steal_into, Queue::bulk_pop, Queue::local_pop, Queue::push
//@ statement: steal_into claims the published tasks as one batch, returns the newest of them and re-queues the rest on the thief in push order;
//@ statement: each task is obtained exactly once; the victim is empty afterwards
#[kani::proof]
#[kani::stub(std::thread::sleep, sleep_never)]
#[kani::stub(BlockNode::copy_to_bulk, copy_to_bulk_contract)]
#[kani::unwind(6)]
fn c04_2e_steal_two() {
    let (sa, mut la) = local::<u8>();
    let (_sb, mut lb) = local::<u8>();
    let a: u8 = kani::any();
    let b: u8 = kani::any();
    la.push_back(a);
    la.push_back(b);
    let r = sa.steal_into(&mut lb);
    assert!(r == Some(b), "[C04.2-steal-returns-newest] steal_into returns the newest task of the stolen batch");
    assert!(sa.is_empty() && !la.has_tasks(), "[C04.2-is-empty] the victim is empty after the whole batch was claimed");
    assert!(lb.pop() == Some(a), "[C04.2-requeued-order] the rest of a stolen batch is re-queued on the thief in push order");
    assert!(lb.pop().is_none() && la.pop().is_none(), "[C04.2-once] no task is handed out twice");
    std::mem::forget(la);
    std::mem::forget(lb);
}

//@ obligation: C04.2g
//@ kind: K2
//@ complete: no
//@ tier: experimental
//@ mem: 28
//@ bound: one concrete schedule: 1 push, stealer pop x2; symbolic payload
//@ safety-counts: yes
//@ timeout: 2400
//@ functions: spmc::Queue::pop, Queue::push
//@ statement: a stealer's single pop returns the oldest task, then None
#[kani::proof]
#[kani::stub(std::thread::sleep, sleep_never)]
#[kani::unwind(6)]
fn c04_2g_stealer_pop() {
    let (sa, mut la) = local::<u8>();
    let c: u8 = kani::any();
    la.push_back(c);
    assert!(sa.0.pop() == Some(c), "[C04.2-steal-pop-fifo] a stealer's pop returns the oldest task");
    assert!(sa.0.pop().is_none() && !la.has_tasks(), "[C04.2-once] no task is handed out twice");
    std::mem::forget(la);
}

//@ obligation: C04.1a
//@ kind: K1
//@ playback: yes
//@ complete: yes
//@ functions: spmc::BlockPtr::pack, BlockPtr::unpack
//@ statement: for a real (32-aligned) block pointer and every id < 32: unpack(pack(p,id)) = (p,id); setting and clearing the bit-63 flag restores the word
#[kani::proof]
#[kani::unwind(3)]
fn c04_1a_pack_unpack() {
    let block = BlockNode::<u8>::new(0);
    let id: usize = kani::any();
    kani::assume(id < BLOCK_SIZE);
    let packed = BlockPtr::<u8>::pack(block, id);
    let (p, i) = BlockPtr::<u8>::unpack(packed);
    assert!(p == block && i == id, "[C04.1-roundtrip] unpack(pack(p, id)) == (p, id)");
    let flagged = (packed as usize | (1 << 63)) as *mut BlockNode<u8>;
    assert!(flagged != packed, "[C04.1-flag-visible] the last-slot flag changes the word");
    let cleared = (flagged as usize & !(1 << 63)) as *mut BlockNode<u8>;
    assert!(cleared == packed, "[C04.1-flag-clear] clearing bit 63 restores the packed word");
    unsafe { drop(Box::from_raw(block)) };
}

//@ obligation: C04.3a
//@ kind: K1
//@ playback: yes
//@ complete: yes
//@ functions: spmc::BlockNode::mark_slots_read
//@ statement: for every count of unread slots u (1..=32) and every size <= u: mark_slots_read(size) returns true iff it consumed the last
//@ statement: unread slots (size == u) and leaves u - size; so the block is freed by exactly one taker, after all 32 slots were read
#[kani::proof]
#[kani::unwind(3)]
fn c04_3a_mark_slots_read() {
    let block = BlockNode::<u8>::new(0);
    let u: usize = kani::any();
    let size: usize = kani::any();
    kani::assume(u >= 1 && u <= BLOCK_SIZE && size >= 1 && size <= u);
    unsafe {
        *((*block).used.as_ptr()) = u;
        let last = (*block).mark_slots_read(size);
        assert!(last == (size == u), "[C04.3-last-iff] true iff this call consumed the last unread slots");
        assert!((*block).used.unsync_load() == u - size, "[C04.3-count] the unread count drops by exactly size");
        drop(Box::from_raw(block));
    }
}

//@ obligation: C04.canary
//@ kind: K2
//@ canary: yes
//@ functions: spmc::Steal::steal_into
//@ statement: canary — claims steal_into returns the oldest task of the batch; must FAIL
#[kani::proof]
#[kani::stub(std::thread::sleep, sleep_never)]
#[kani::stub(BlockNode::copy_to_bulk, copy_to_bulk_contract)]
#[kani::unwind(6)]
fn c04_canary() {
    let (sa, mut la) = local::<u8>();
    let (_sb, mut lb) = local::<u8>();
    la.push_back(1);
    la.push_back(2);
    let r = sa.steal_into(&mut lb);
    assert!(r == Some(1), "[C04.canary] canary (expected to fail)");
}

//@ obligation: C04.5a
//@ kind: K1
//@ playback: yes
//@ complete: no
//@ bound: a block with slots 3..6 written; ranges [3,6) and [4,4)
//@ safety-counts: yes
//@ timeout: 900
//@ mem: 28
//@ tier: thorough
//@ functions: spmc::BlockNode::copy_to_bulk
//@ statement: the real copy_to_bulk(start, end) returns the values of slots start..end in order (the contract its callers are checked against)
#[kani::proof]
#[kani::unwind(6)]
fn c04_5a_copy_to_bulk_contract() {
    let b = BlockNode::<u8>::new(0);
    let vals: [u8; 3] = kani::any();
    unsafe {
        (*b).set(3, vals[0]);
        (*b).set(4, vals[1]);
        (*b).set(5, vals[2]);
        let v = (*b).copy_to_bulk(3, 6);
        assert!(v.len() == 3 && v[0] == vals[0] && v[1] == vals[1] && v[2] == vals[2], "[C04.5-copy] copy_to_bulk returns the slots start..end in order");
        let e = (*b).copy_to_bulk(4, 4);
        assert!(e.is_empty(), "[C04.5-copy-empty] an empty range gives an empty batch");
        drop(Box::from_raw(b));
    }
}

fn spin_expected(_b: &crossbeam_utils::Backoff) {
    kani::cover!(true, "taker spins on a locked head");
    kani::assume(false);
}

/// a queue whose head word carries the bit-63 marker: a taker that claimed the last slot of a block / a whole batch
/// is still resolving it (it will publish the new head with a plain store)
fn queue_with_locked_head() -> (Steal<u8>, Local<u8>) {
    let (s, mut l) = local::<u8>();
    l.push_back(1);
    l.push_back(2);
    let q = &l.0;
    let head = q.head.0.load(Ordering::Relaxed);
    q.head.0.store((head as usize | (1 << 63)) as *mut BlockNode<u8>, Ordering::Relaxed);
    (s, l)
}

//@ obligation: C04.4a
//@ kind: K3
//@ complete: yes
//@ timeout: 900
//@ mem: 28
//@ functions: spmc::Queue::local_pop
//@ statement: while the head word carries the bit-63 marker (another taker is resolving the last slot of a block or a claimed batch) the OWNER's pop
//@ statement: takes nothing: its compare-exchange must fail against the marked word and it spins — it neither returns a task nor None
#[kani::proof]
#[kani::stub(std::thread::sleep, sleep_never)]
#[kani::stub(crossbeam_utils::Backoff::spin, spin_expected)]
#[kani::unwind(3)]
fn c04_4a_owner_pop_respects_the_head_marker() {
    let (_s, mut l) = queue_with_locked_head();
    let _ = l.pop();
    assert!(false, "[C04.4-owner-respects-marker] the owner's pop went through although the head is marked as being resolved by another taker: the same task is handed out twice");
}

//@ obligation: C04.4b
//@ kind: K3
//@ complete: yes
//@ timeout: 900
//@ mem: 28
//@ functions: spmc::Queue::pop
//@ statement: likewise a stealer's single pop takes nothing while the head is marked
#[kani::proof]
#[kani::stub(std::thread::sleep, sleep_never)]
#[kani::stub(crossbeam_utils::Backoff::spin, spin_expected)]
#[kani::unwind(3)]
fn c04_4b_stealer_pop_respects_the_head_marker() {
    let (s, _l) = queue_with_locked_head();
    let _ = s.0.pop();
    assert!(false, "[C04.4-stealer-respects-marker] a stealer's pop went through although the head is marked as being resolved by another taker");
}
