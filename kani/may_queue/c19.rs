//! C19 — timer entry list (`mpsc_list_v1`): each entry consumed exactly once, popped in order or removed.
//!
//! Injected as a child module of `mpsc_list_v1.rs` (white-box: private `Node` fields are visible).
//!
//! K2 abstract-view contract, checked on the real list against a sequence model. CBMC's cost explodes when
//! the *shape* of the heap depends on symbolic choices (two symbolic push/pop choices already need 600k SAT
//! variables; four need > 15 min), so the K2 part runs a fixed list of concrete operation sequences with
//! symbolic payloads — a bounded stand-in (scenario list), never counted as proved. CBMC's pointer checks
//! (use after free, double free, out of bounds) are on for every run.
//! K3 obligations (loop-free, complete): the consumer spins instead of reporting "empty" or touching an
//! unlinked node while a push is between its `head.swap` and its `next.store`.
//@ file-inject: may_queue/src/mpsc_list_v1.rs
use super::*;
use crossbeam_utils::Backoff;

static mut SPUN: bool = false;

/// sequentially a consumer that has to spin would spin forever
fn snooze_never(_b: &Backoff) {
    assert!(false, "[C19.1-no-spin] the consumer spins although no push is in flight (sequentially it would hang)");
    kani::assume(false);
}

/// the consumer is expected to spin: record it and cut the path (the wait itself is not verified)
fn snooze_expected(_b: &Backoff) {
    unsafe { SPUN = true };
    kani::cover!(true, "consumer spin reached");
    kani::assume(false);
}

const H: usize = 3;
const MAXP: usize = 6;
// op codes
const P: u8 = 0; // push
const O: u8 = 1; // pop
const F: u8 = 2; // pop_if(false)
const T: u8 = 3; // pop_if(true)
const K: u8 = 4; // peek
const R0: u8 = 5; // remove(handle of push #0) ...
const R1: u8 = 6;
const R2: u8 = 7;
const D0: u8 = 8; // drop(handle of push #0) ...
const D1: u8 = 9;
const D2: u8 = 10;

/// the abstract view: ids (push ordinals) still in the list, oldest first
struct Model {
    ids: [usize; MAXP],
    len: usize,
}

impl Model {
    fn front(&self) -> Option<usize> {
        if self.len == 0 {
            None
        } else {
            Some(self.ids[0])
        }
    }
    fn position(&self, id: usize) -> Option<usize> {
        let mut i = 0;
        while i < self.len {
            if self.ids[i] == id {
                return Some(i);
            }
            i += 1;
        }
        None
    }
    fn remove_at(&mut self, idx: usize) {
        let mut i = idx;
        while i + 1 < self.len {
            self.ids[i] = self.ids[i + 1];
            i += 1;
        }
        self.len -= 1;
    }
}

/// run one concrete operation sequence (payloads symbolic) against the real list and the model
fn run_seq(seq: &[u8], vals: &[u8; MAXP]) {
    let q: Queue<u8> = Queue::new();
    let mut m = Model { ids: [0; MAXP], len: 0 };
    let mut handles: [Option<Entry<u8>>; MAXP] = [const { None }; MAXP];
    let mut pushed: usize = 0;
    let mut consumed: [bool; MAXP] = [false; MAXP];

    let mut s = 0;
    while s < seq.len() {
        let op = seq[s];
        s += 1;
        if op == P {
            let was_empty = m.len == 0;
            let (e, is_head) = q.push(vals[pushed]);
            assert!(is_head == was_empty, "[C19.1-is-head] push reports head iff the list was empty");
            handles[pushed] = Some(e);
            m.ids[m.len] = pushed;
            m.len += 1;
            pushed += 1;
        } else if op == O || op == T {
            let r = if op == O { q.pop() } else { q.pop_if(&|_v: &u8| true) };
            match m.front() {
                None => assert!(r.is_none(), "[C19.1-pop-empty] pop on an empty list must return None"),
                Some(id) => {
                    assert!(r == Some(vals[id]), "[C19.1-pop-order] pop / pop_if(true) returns the oldest entry still in the list");
                    assert!(!consumed[id], "[C19.1-once] entry consumed twice");
                    consumed[id] = true;
                    m.remove_at(0);
                }
            }
        } else if op == F {
            let r = q.pop_if(&|_v: &u8| false);
            assert!(r.is_none(), "[C19.1-pop-if-false] pop_if with a false predicate returns None and changes nothing");
        } else if op == K {
            let r = unsafe { q.peek() }.copied();
            assert!(r == m.front().map(|id| vals[id]), "[C19.1-peek] peek shows the oldest entry without consuming it");
        } else if op < D0 {
            let j = (op - R0) as usize;
            if let Some(h) = handles[j].take() {
                let pos = m.position(j);
                let r = h.remove();
                match pos {
                    // still linked and not the newest entry
                    Some(p) if p + 1 != m.len => {
                        assert!(r == Some(vals[j]), "[C19.1-remove] remove returns the value of an entry that is still in the list and is not the newest one");
                        assert!(!consumed[j], "[C19.1-once] entry consumed twice");
                        consumed[j] = true;
                        m.remove_at(p);
                    }
                    _ => assert!(r.is_none(), "[C19.1-remove-none] remove of a consumed entry (or of the newest one) returns None and leaves the list intact"),
                }
            }
        } else {
            let j = (op - D0) as usize;
            handles[j] = None;
        }
        assert!(q.is_empty() == (m.len == 0), "[C19.1-is-empty] is_empty iff no entry is left");
        let mut k = 0;
        while k < pushed {
            if let Some(h) = &handles[k] {
                if m.position(k).is_some() {
                    assert!(h.is_link(), "[C19.1-is-link] an entry still in the list must report is_link()");
                }
            }
            k += 1;
        }
    }
    // drain: everything left comes out in order, exactly once
    while m.len > 0 {
        let r = q.pop();
        let id = m.ids[0];
        assert!(r == Some(vals[id]), "[C19.1-drain-order] remaining entries pop in push order");
        assert!(!consumed[id], "[C19.1-once] entry consumed twice");
        consumed[id] = true;
        m.remove_at(0);
    }
    assert!(q.pop().is_none() && q.is_empty(), "[C19.1-drain-empty] nothing is left after draining");
    let mut k = 0;
    while k < pushed {
        assert!(consumed[k], "[C19.1-not-lost] a pushed entry was never returned");
        k += 1;
    }
    // handles first (they may still own the sentinel), then the queue; CBMC checks every free
    let mut i = 0;
    while i < MAXP {
        handles[i] = None;
        i += 1;
    }
    drop(q);
}

//@ obligation: C19.1a
//@ property: C19
//@ kind: K2
//@ complete: no
//@ bound: 6 concrete operation sequences (remove middle / head / newest / only entry / consumed entry), symbolic payloads, then drain and drop
//@ safety-counts: yes
//@ functions: mpsc_list_v1::Queue::push, Queue::pop, Queue::pop_if, Queue::peek, Queue::is_empty, Entry::remove, Entry::is_link, Entry::drop, Queue::drop
//@ statement: against the sequence model: push reports is_head iff the list was empty; pop/pop_if/peek see the oldest entry; remove returns the
//@ statement: value iff the entry is linked and not the newest, else None with the list unchanged; every value is returned exactly once and none is lost;
//@ statement: an entry still in the list reports is_link; the consumer never spins; every node is freed exactly once (CBMC pointer checks)
#[kani::proof]
#[kani::stub(crossbeam_utils::Backoff::snooze, snooze_never)]
#[kani::unwind(10)]
fn c19_1a_remove_positions() {
    let vals: [u8; MAXP] = kani::any();
    run_seq(&[P, P, P, R1, O, O, O], &vals);
    run_seq(&[P, P, P, R0, O, O], &vals);
    run_seq(&[P, P, P, R2, O, O, O], &vals);
    run_seq(&[P, R0, O], &vals);
    run_seq(&[P, O, R0], &vals);
    run_seq(&[P, P, O, R0, R1, O], &vals);
}

//@ obligation: C19.1b
//@ property: C19
//@ kind: K2
//@ complete: no
//@ bound: 6 concrete operation sequences (remove then push again, dropped handles, consumed sentinel with and without handle), symbolic payloads
//@ safety-counts: yes
//@ functions: mpsc_list_v1::Queue::push, Queue::pop, Entry::remove, Entry::drop, Queue::drop
//@ statement: as C19.1a for sequences that mix removal with later pushes and with dropped handles (reference counting: every node freed once)
#[kani::proof]
#[kani::stub(crossbeam_utils::Backoff::snooze, snooze_never)]
#[kani::unwind(10)]
fn c19_1b_remove_then_push_and_handles() {
    let vals: [u8; MAXP] = kani::any();
    run_seq(&[P, P, R0, R1, P, O, O], &vals);
    run_seq(&[P, P, P, R1, R0, O, P, O], &vals);
    run_seq(&[P, D0, O, P, O], &vals);
    run_seq(&[P, O, D0, P, O], &vals);
    run_seq(&[P, P, D1, R0, O], &vals);
    run_seq(&[P, P, R0, P, R1, O, O], &vals);
}

//@ obligation: C19.1c
//@ property: C19
//@ kind: K2
//@ complete: no
//@ bound: 6 concrete operation sequences (pop_if / peek mixes, pop on empty, removal after pops), symbolic payloads
//@ safety-counts: yes
//@ functions: mpsc_list_v1::Queue::push, Queue::pop, Queue::pop_if, Queue::peek, Entry::remove
//@ statement: as C19.1a for sequences built around pop_if(false/true), peek, pop on an empty list and removal after the head moved
#[kani::proof]
#[kani::stub(crossbeam_utils::Backoff::snooze, snooze_never)]
#[kani::unwind(10)]
fn c19_1c_popif_peek_mix() {
    let vals: [u8; MAXP] = kani::any();
    run_seq(&[P, F, K, T, P, K, O], &vals);
    run_seq(&[O, P, O, O], &vals);
    run_seq(&[P, P, P, O, R1, R2, O, O], &vals);
    run_seq(&[P, P, O, O, R1], &vals);
    run_seq(&[P, P, P, O, D0, R1, O, O], &vals);
    run_seq(&[P, P, F, R0, T, F, O], &vals);
}

//@ obligation: C19.1s
//@ property: C19
//@ kind: K2
//@ complete: no
//@ tier: thorough
//@ bound: after two pushes, every sequence of two operations chosen symbolically from {push, pop, remove(first), remove(second)}, then drain
//@ safety-counts: yes
//@ timeout: 2400
//@ functions: mpsc_list_v1::Queue::push, Queue::pop, Entry::remove
//@ statement: exactly-once and order for symbolically chosen operations (heap shape symbolic)
#[kani::proof]
#[kani::stub(crossbeam_utils::Backoff::snooze, snooze_never)]
#[kani::unwind(8)]
fn c19_1s_symbolic_choice() {
    let q: Queue<u8> = Queue::new();
    let (e0, _) = q.push(10);
    let (e1, _) = q.push(11);
    let mut hs = [Some(e0), Some(e1)];
    let mut got = [0u8; 4]; // how often value 10+i came out
    let mut pushed = 2usize;
    let mut step = 0;
    while step < 2 {
        step += 1;
        let c: u8 = kani::any();
        match c % 4 {
            0 => {
                let _ = q.push(10 + pushed as u8);
                pushed += 1;
            }
            1 => {
                if let Some(v) = q.pop() {
                    got[(v - 10) as usize] += 1;
                }
            }
            2 => {
                if let Some(h) = hs[0].take() {
                    if let Some(v) = h.remove() {
                        assert!(v == 10, "[C19.1s-remove-value] remove returns its own entry's value");
                        got[0] += 1;
                    }
                }
            }
            _ => {
                if let Some(h) = hs[1].take() {
                    if let Some(v) = h.remove() {
                        assert!(v == 11, "[C19.1s-remove-value] remove returns its own entry's value");
                        got[1] += 1;
                    }
                }
            }
        }
    }
    let mut last = 0u8;
    let mut i = 0;
    while i < 4 {
        if let Some(v) = q.pop() {
            assert!(v > last, "[C19.1s-order] drained values come out in push order");
            last = v;
            got[(v - 10) as usize] += 1;
        }
        i += 1;
    }
    let mut i = 0;
    while i < 4 {
        assert!(got[i] == if i < pushed { 1 } else { 0 }, "[C19.1s-once] every pushed value is returned exactly once");
        i += 1;
    }
    hs[0] = None;
    hs[1] = None;
    drop(q);
}

/// a queue on which one producer has executed `head.swap(node)` but not yet `prev.next.store(node)`
unsafe fn queue_with_push_in_flight(k: usize) -> (Queue<u8>, *mut Node<u8>) {
    let q: Queue<u8> = Queue::new();
    let mut i = 0;
    while i < k {
        let _ = q.push(i as u8);
        let _ = q.pop();
        i += 1;
    }
    let node = Node::new(Some(7u8));
    let prev = q.head.swap(node, Ordering::AcqRel);
    (*node).prev = prev;
    (q, node)
}

//@ obligation: C19.2a
//@ property: C19
//@ kind: K3
//@ complete: yes
//@ functions: mpsc_list_v1::Queue::pop, Queue::pop_if, Queue::peek, Queue::is_empty
//@ statement: with a push in flight (head already swapped, link not yet stored) on an otherwise empty list, pop, pop_if and peek
//@ statement: do not return (they spin until the link appears): never None, never an unlinked node; is_empty reports false
#[kani::proof]
#[kani::stub(crossbeam_utils::Backoff::snooze, snooze_expected)]
#[kani::unwind(4)]
fn c19_2a_consumer_spins_while_push_in_flight() {
    let k: usize = if kani::any() { 0 } else { 1 };
    let (q, _node) = unsafe { queue_with_push_in_flight(k) };
    assert!(!q.is_empty(), "[C19.2a-not-empty] a list with a push in flight is not empty");
    let which: u8 = kani::any();
    match which % 3 {
        0 => {
            let _ = q.pop();
        }
        1 => {
            let _ = q.pop_if(&|_v: &u8| true);
        }
        _ => {
            let _ = unsafe { q.peek() };
        }
    }
    assert!(false, "[C19.2a-spins] the consumer returned although the pending push had not linked its node");
}

//@ obligation: C19.2b
//@ property: C19
//@ kind: K2
//@ playback: yes
//@ complete: yes
//@ functions: mpsc_list_v1::Queue::push
//@ statement: push post-state (white box): the new node is the head, its prev is the old head, the old head links to it, it carries the
//@ statement: link bit and two references, and is_head is true iff the old head was the consumer's sentinel
#[kani::proof]
#[kani::unwind(4)]
fn c19_2b_push_links() {
    let q: Queue<u8> = Queue::new();
    if kani::any() {
        let _ = q.push(1);
        if kani::any() {
            let _ = q.pop();
        }
    }
    let v: u8 = kani::any();
    unsafe {
        let old_head = q.head.load(Ordering::Acquire);
        let tail = *q.tail.get();
        let (e, is_head) = q.push(v);
        let node = e.0.as_ptr();
        assert!(q.head.load(Ordering::Acquire) == node, "[C19.2b-head] the pushed node is the new head");
        assert!((*node).prev == old_head, "[C19.2b-prev] node.prev is the old head");
        assert!((*old_head).next.load(Ordering::Acquire) == node, "[C19.2b-next] the old head links to the node");
        assert!((*node).value == Some(v) && (*node).refs == REF_INIT, "[C19.2b-init] value stored, link bit set, two references");
        assert!(is_head == (old_head == tail), "[C19.2b-is-head] is_head iff the list was empty");
        assert!(e.is_link(), "[C19.2b-is-link] a fresh entry is linked");
    }
}

//@ obligation: C19.canary
//@ property: C19
//@ kind: K2
//@ canary: yes
//@ functions: mpsc_list_v1::Queue::pop
//@ statement: canary — claims pops come out in reverse order; must FAIL
#[kani::proof]
#[kani::stub(crossbeam_utils::Backoff::snooze, snooze_never)]
#[kani::unwind(4)]
fn c19_canary() {
    let q: Queue<u8> = Queue::new();
    let _ = q.push(1);
    let _ = q.push(2);
    assert!(q.pop() == Some(2), "[C19.canary] canary (expected to fail)");
}
