//! C03 (spsc part) — single-producer block queue: FIFO, nothing lost or duplicated, across block
//! boundaries, block recycling (`inner_cache`) and drop. Injected as a child module of `spsc.rs`.
//@ file-inject: may_queue/src/spsc.rs
//@ file-property: C03
use super::*;

const NV: usize = 100;
static mut DROPS: usize = 0;

/// payload that counts its drops
struct D(u8);
impl Drop for D {
    fn drop(&mut self) {
        unsafe { DROPS += 1 };
    }
}

struct Drv {
    q: Queue<u8>,
    vals: [u8; NV],
    pushed: usize,
    popped: usize,
}

impl Drv {
    fn new() -> Self {
        Drv { q: Queue::new(), vals: kani::any(), pushed: 0, popped: 0 }
    }
    fn check_len(&self) {
        assert!(self.q.len() == self.pushed - self.popped, "[C03.3-len] len equals pushes minus pops");
        assert!(self.q.is_empty() == (self.pushed == self.popped), "[C03.3-is-empty] is_empty iff every pushed value was popped");
    }
    fn push(&mut self, n: usize) {
        let mut i = 0;
        while i < n {
            self.q.push(self.vals[self.pushed]);
            self.pushed += 1;
            i += 1;
        }
        self.check_len();
    }
    fn pop(&mut self, n: usize) {
        let mut i = 0;
        while i < n {
            let r = self.q.pop();
            if self.popped == self.pushed {
                assert!(r.is_none(), "[C03.3-pop-empty] pop on an empty queue returns None");
            } else {
                assert!(r == Some(self.vals[self.popped]), "[C03.3-pop-fifo] pop returns the oldest value not yet popped");
                self.popped += 1;
            }
            i += 1;
        }
        self.check_len();
    }
    fn peek(&mut self) {
        let r = unsafe { self.q.peek() }.copied();
        if self.popped == self.pushed {
            assert!(r.is_none(), "[C03.3-peek-empty] peek on an empty queue returns None");
        } else {
            assert!(r == Some(self.vals[self.popped]), "[C03.3-peek] peek shows the oldest value without consuming it");
        }
        self.check_len();
    }
    fn bulk(&mut self) {
        let v = self.q.bulk_pop();
        let avail = self.pushed - self.popped;
        let to_block_end = BLOCK_SIZE - (self.popped & BLOCK_MASK);
        let exp = if avail < to_block_end { avail } else { to_block_end };
        assert!(v.len() == exp, "[C03.3-bulk-len] bulk_pop returns every queued value up to the end of the head block (empty iff the queue is empty)");
        let mut i = 0;
        while i < v.len() {
            assert!(v[i] == self.vals[self.popped + i], "[C03.3-bulk-fifo] bulk_pop returns an in-order prefix of the queue");
            i += 1;
        }
        self.popped += exp;
        self.check_len();
    }
}

//@ obligation: C03.3a
//@ kind: K2
//@ complete: no
//@ bound: one concrete schedule: 33 pushes, 33 pops (crossing the 32-slot block boundary), refills and bulk_pops at offsets 1, 31, 32; symbolic payloads
//@ safety-counts: yes
//@ functions: spsc::Queue::push, Queue::pop, Queue::peek, Queue::bulk_pop, Queue::len, Queue::is_empty, Queue::drop
//@ statement: against the sequence model: pop = oldest value / None iff empty; peek likewise without consuming; bulk_pop = non-empty in-order
//@ statement: prefix ending at most at the block end; len = pushes - pops; no slot is read uninitialised, no block freed twice (CBMC pointer checks)
#[kani::proof]
#[kani::unwind(70)]
fn c03_3a_spsc_boundary() {
    let mut d = Drv::new();
    d.pop(1);
    d.bulk();
    d.push(33);
    d.peek();
    d.pop(33);
    d.pop(1);
    d.push(2);
    d.bulk(); // offset 33: two values
    d.push(31);
    d.pop(1);
    d.bulk(); // offset 36 .. 64: stops at the block end
    d.bulk();
    d.peek();
    drop(d);
}

//@ obligation: C03.3b
//@ kind: K2
//@ complete: no
//@ bound: one concrete schedule: fill exactly one block, bulk_pop it, fill 1.5 blocks, mixed pops/bulk_pops; exercises alloc_node recycling of consumed blocks; symbolic payloads
//@ safety-counts: yes
//@ functions: spsc::Queue::push, Queue::alloc_node, Queue::pop, Queue::bulk_pop, Queue::drop
//@ statement: as C03.3a when consumed blocks are recycled by alloc_node (inner_cache): a recycled block never overwrites unread values
#[kani::proof]
#[kani::unwind(70)]
fn c03_3b_spsc_recycling() {
    let mut d = Drv::new();
    d.push(32);
    d.bulk(); // whole first block
    d.push(32); // second block full: alloc_node may recycle block 0
    d.pop(31);
    d.push(20); // third block in use while the head is still in block 1
    d.bulk(); // last value of block 1
    d.bulk(); // 20 values of block 2 (here: 16 + ...)
    d.pop(1);
    d.peek();
    drop(d);
}

//@ obligation: C03.5a
//@ kind: K2
//@ complete: no
//@ bound: two concrete schedules with drop-counting payloads: 3 queued of 5, and 34 queued (two blocks) at drop
//@ safety-counts: yes
//@ functions: spsc::Queue::drop, Queue::bulk_pop
//@ statement: dropping the queue drops every value still queued exactly once (and none that was already popped)
#[kani::proof]
#[kani::unwind(70)]
fn c03_5a_spsc_drop_drops_remaining_once() {
    unsafe { DROPS = 0 };
    let q: Queue<D> = Queue::new();
    let mut i = 0;
    while i < 5 {
        q.push(D(i as u8));
        i += 1;
    }
    let a = q.pop();
    let b = q.pop();
    assert!(unsafe { DROPS } == 0, "[C03.5-no-early-drop] values are not dropped while queued or held");
    drop(a);
    drop(b);
    assert!(unsafe { DROPS } == 2, "[C03.5-popped-drop] popped values are dropped by their owner");
    drop(q);
    assert!(unsafe { DROPS } == 5, "[C03.5-drop-once] queue drop drops each remaining value exactly once");
    unsafe { DROPS = 0 };
    let q: Queue<D> = Queue::new();
    let mut i = 0;
    while i < 34 {
        q.push(D(i as u8));
        i += 1;
    }
    drop(q);
    assert!(unsafe { DROPS } == 34, "[C03.5-drop-once] queue drop drops each remaining value exactly once (two blocks)");
}

//@ obligation: C03.1a
//@ kind: K1
//@ complete: yes
//@ functions: spsc::bulk_end
//@ statement: Kani function contract on spsc::bulk_end (inserted in place): for start <= end <= usize::MAX-32 the result is
//@ statement: min(end, (start/32+1)*32), lies in [start, end], is at most one block past start, is > start iff start < end,
//@ statement: and never crosses the block boundary of start
#[kani::proof_for_contract(bulk_end)]
fn c03_1a_spsc_bulk_end_contract() {
    let _ = bulk_end(kani::any(), kani::any());
}

static mut PUBLISH_SEEN: bool = false;
static mut QPTR: *const Queue<u8> = std::ptr::null();
static mut EXPECT_V: u8 = 0;
static mut EXPECT_IDX: usize = 0;

/// stub for `AtomicUsize::store`: when the producer publishes `tail.index`, the slot must already hold
/// the value and, at a block boundary, the new tail block must already be linked and installed.
fn store_usize_stub(this: &std::sync::atomic::AtomicUsize, val: usize, _o: Ordering) {
    unsafe {
        let q = &*QPTR;
        let tail_index: &std::sync::atomic::AtomicUsize = &q.tail.index;
        if std::ptr::eq(this, tail_index) {
            PUBLISH_SEEN = true;
            assert!(val == EXPECT_IDX + 1, "[C03.7-publish-index] push publishes exactly the next index");
            // the consumer's view at this instant: the block that holds EXPECT_IDX
            let head = &*q.head.block.unsync_load();
            let got = *head.peek(EXPECT_IDX);
            assert!(got == EXPECT_V, "[C03.7-write-before-publish] the slot holds the value before tail.index is published");
            if val & BLOCK_MASK == 0 {
                let next = head.next.unsync_load();
                assert!(!next.is_null(), "[C03.7-link-before-publish] the next block is linked before a boundary index is published");
                assert!(q.tail.block.unsync_load() == next, "[C03.7-tail-before-publish] the tail block is advanced before a boundary index is published");
            }
        }
        // perform the store
        *(this.as_ptr()) = val;
    }
}

//@ obligation: C03.7a
//@ kind: K3
//@ complete: yes
//@ functions: spsc::Queue::push, spsc::BlockNode::set
//@ statement: spsc push ordering: at the moment tail.index is stored (the only thing the consumer reads), the slot already holds the value
//@ statement: and — for the last slot of a block — the next block is linked and installed as tail block; checked at offsets 0 and 31
#[kani::proof]
#[kani::stub(std::sync::atomic::Atomic::<usize>::store, store_usize_stub)]
#[kani::unwind(40)]
fn c03_7a_spsc_push_publishes_last() {
    let q: Queue<u8> = Queue::new();
    unsafe { QPTR = &q };
    let at_boundary: bool = kani::any();
    let v: u8 = kani::any();
    if at_boundary {
        // bring the producer to the last slot of the first block without the stub's checks
        unsafe {
            *(q.tail.index.as_ptr()) = 31;
            EXPECT_IDX = 31;
        }
    } else {
        unsafe { EXPECT_IDX = 0 };
    }
    unsafe {
        EXPECT_V = v;
        PUBLISH_SEEN = false;
    }
    q.push(v);
    assert!(unsafe { PUBLISH_SEEN }, "[C03.7-published] push must publish the new tail index");
    kani::cover!(at_boundary, "boundary push");
    // leave the queue in a droppable state
    if at_boundary {
        unsafe { *(q.head.index.as_ptr()) = 31 };
    }
    let r = q.pop();
    assert!(r == Some(v), "[C03.7-roundtrip] the published value is what the consumer pops");
    std::mem::forget(q);
}

//@ obligation: C03.spsc-canary
//@ kind: K2
//@ canary: yes
//@ functions: spsc::Queue::pop
//@ statement: canary — claims LIFO order; must FAIL
#[kani::proof]
#[kani::unwind(5)]
fn c03_spsc_canary() {
    let q: Queue<u8> = Queue::new();
    q.push(1);
    q.push(2);
    assert!(q.pop() == Some(2), "[C03.spsc-canary] canary (expected to fail)");
}
